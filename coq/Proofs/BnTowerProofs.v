(* BnTowerProofs.v -- C10: the Karatsuba-style formulas of gfp6.go / gfp12.go and the sparse
   multiplication of optate.go equal the schoolbook products in the tower
   F_p^2 -> F_p^6 = F_p^2[tau]/(tau^3 - xi) -> F_p^12 = F_p^6[omega]/(omega^2 - tau), xi = i + 9;
   consistency of the constants that translate/run.py reads from the source. *)
From Coq Require Import ZArith List Bool Ring.
From DosVerif Require Import Base.Val Base.Field Gen.BnConsts Models.Bn Models.BnPairing Proofs.ZqField.
Import ListNotations.

Lemma fp_ring : ring_theory (f0 fp_ops) (f1 fp_ops) (fadd fp_ops) (fmul fp_ops) (fsub fp_ops) (fopp fp_ops) eq.
Proof. exact (zq_ring bn_p). Qed.
Add Ring fpr : fp_ring.

Lemma fp2_ext' (a b : Fp2) : c1 a = c1 b -> c0 a = c0 b -> a = b.
Proof. destruct a, b; cbn; intros -> ->; reflexivity. Qed.
Lemma fp6_ext (a b : fp6) : sx a = sx b -> sy a = sy b -> sz a = sz b -> a = b.
Proof. destruct a, b; cbn; intros -> -> ->; reflexivity. Qed.
Lemma fp12_ext (a b : fp12) : tx a = tx b -> ty a = ty b -> a = b.
Proof. destruct a, b; cbn; intros -> ->; reflexivity. Qed.

Ltac tower :=
  unfold fp12_mul, fp12_square, mul_line, fp6_mul, fp6_square, fp6_mul_tau, fp6_mul_scalar, fp6_add, fp6_sub,
         fp2_sq, fp2_mulxi, fp2_zero, fp2_one;
  cbn [tx ty sx sy sz c0 c1 fp2_square fp2_mul fp2_add fp2_sub f0 f1 fp2o fp2_ops];
  ring.

Definition nine : Fp := fadd fp_ops (fadd fp_ops (fadd fp_ops (fadd fp_ops (f1 fp_ops) (f1 fp_ops)) (fadd fp_ops (f1 fp_ops) (f1 fp_ops)))
                                              (fadd fp_ops (fadd fp_ops (f1 fp_ops) (f1 fp_ops)) (fadd fp_ops (f1 fp_ops) (f1 fp_ops)))) (f1 fp_ops).
Definition xi : Fp2 := mkfp2 (f1 fp_ops) nine.          (* i + 9 *)
Definition tau : fp6 := mkfp6 fp2_zero fp2_one fp2_zero.

Theorem fp2_mulxi_is_mul (a : Fp2) : fp2_mulxi a = fp2_mul fp_ops a xi.
Proof. apply fp2_ext'; unfold fp2_mulxi, xi, nine; cbn [c0 c1 fp2_mul]; ring. Qed.

(* the schoolbook product in F_p^2[tau]/(tau^3 - xi) *)
Definition fp6_mul_school (a b : fp6) : fp6 :=
  let m := fp2_mul fp_ops in let p := fp2_add fp_ops in
  mkfp6 (p (p (m (sx a) (sz b)) (m (sy a) (sy b))) (m (sz a) (sx b)))
        (p (p (m (sy a) (sz b)) (m (sz a) (sy b))) (m (m (sx a) (sx b)) xi))
        (p (m (sz a) (sz b)) (m (p (m (sx a) (sy b)) (m (sy a) (sx b))) xi)).

Theorem fp6_mul_is_schoolbook (a b : fp6) : fp6_mul a b = fp6_mul_school a b.
Proof.
  apply fp6_ext; apply fp2_ext'; unfold fp6_mul_school, xi, nine; tower.
Qed.

Theorem fp6_square_is_mul (a : fp6) : fp6_square a = fp6_mul a a.
Proof. apply fp6_ext; apply fp2_ext'; tower. Qed.

Theorem fp6_mul_tau_is_mul (a : fp6) : fp6_mul_tau a = fp6_mul a tau.
Proof. apply fp6_ext; apply fp2_ext'; unfold tau; tower. Qed.

Theorem fp6_mul_comm (a b : fp6) : fp6_mul a b = fp6_mul b a.
Proof. apply fp6_ext; apply fp2_ext'; tower. Qed.

(* F_p^12: (x w + y)(x' w + y') = (x y' + y x') w + (y y' + tau x x') is how fp12_mul is written;
   squaring and the sparse line multiplication agree with it *)
Theorem fp12_square_is_mul (a : fp12) : fp12_square a = fp12_mul a a.
Proof. apply fp12_ext; apply fp6_ext; apply fp2_ext'; tower. Qed.

Theorem fp12_mul_comm (a b : fp12) : fp12_mul a b = fp12_mul b a.
Proof. apply fp12_ext; apply fp6_ext; apply fp2_ext'; tower. Qed.

Theorem mul_line_is_sparse_mul (r : fp12) (a b c : Fp2) :
  mul_line r a b c = fp12_mul r (mkfp12 (mkfp6 fp2_zero a b) (mkfp6 fp2_zero fp2_zero c)).
Proof. apply fp12_ext; apply fp6_ext; apply fp2_ext'; tower. Qed.

(* ---------------------------------------------------------------- the constants read from the source *)
Local Open Scope Z_scope.

Definition R256 : Z := 2 ^ 256.

Theorem consts_montgomery :
  (src_np * src_p + 1) mod R256 = 0 /\            (* np = -p^-1 mod R *)
  src_r2 = (R256 * R256) mod src_p /\             (* r2 = R^2 mod p *)
  src_r3 = (R256 * R256 * R256) mod src_p /\      (* r3 = R^3 mod p *)
  (src_rN1 * R256) mod src_p = 1 /\               (* rN1 = R^-1 mod p *)
  src_invert_exponent = src_p - 2.
Proof. repeat split; vm_compute; reflexivity. Qed.

Theorem consts_bn_parameters :
  src_p = 36 * src_u ^ 4 + 36 * src_u ^ 3 + 24 * src_u ^ 2 + 6 * src_u + 1 /\
  src_order = 36 * src_u ^ 4 + 36 * src_u ^ 3 + 18 * src_u ^ 2 + 6 * src_u + 1 /\
  fold_right (fun d acc => d + 2 * acc) 0 src_naf = 6 * src_u + 2.
Proof. repeat split; vm_compute; reflexivity. Qed.

(* twistB * (i + 9) = 3; the Frobenius constants are powers of xi^((p-1)/6), which satisfies
   x^6 * xi = conj(xi); the p^2 constants are its norm and powers of it *)
Definition fp2v (a : Fp2) : Z * Z := (zv (c1 a), zv (c0 a)).
Definition x6 := xiToPMinus1Over6.
Definition pw (a : Fp2) (n : nat) : Fp2 := Nat.iter n (fun acc => fp2_mul fp_ops acc a) fp2_one.

Theorem consts_twist_and_frobenius :
  fp2v (fp2_mul fp_ops g2_b xi) = (0, 3) /\
  fp2v (fp2_mul fp_ops (pw x6 6) xi) = fp2v (fp2_conj xi) /\
  fp2v xiToPMinus1Over3 = fp2v (pw x6 2) /\
  fp2v xiToPMinus1Over2 = fp2v (pw x6 3) /\
  fp2v xiTo2PMinus2Over3 = fp2v (pw x6 4) /\
  fp2v (fp2_mul fp_ops x6 (fp2_conj x6)) = (0, zv xiToPSquaredMinus1Over6) /\
  zv xiToPSquaredMinus1Over3 = zv (fmul fp_ops xiToPSquaredMinus1Over6 xiToPSquaredMinus1Over6) /\
  zv xiTo2PSquaredMinus2Over3 = zv (fmul fp_ops xiToPSquaredMinus1Over3 xiToPSquaredMinus1Over3).
Proof. repeat split; vm_compute; reflexivity. Qed.
