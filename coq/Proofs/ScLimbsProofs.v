(* ScLimbsProofs.v -- every limb program made of well-formed Carry / Fold steps leaves the
   represented integer unchanged modulo the group order. *)
From Coq Require Import ZArith List Bool Lia.
From DosVerif Require Import Models.ScLimbs.
Import ListNotations.
Open Scope Z_scope.

Lemma set_length l i v : length (set l i v) = length l.
Proof. revert i; induction l as [|x t IH]; intros [|i]; cbn; auto. Qed.

Lemma get_set_same l i v : (i < length l)%nat -> get (set l i v) i = v.
Proof. revert i; induction l as [|x t IH]; intros [|i] H; cbn in *; try lia; auto. apply IH; lia. Qed.

Lemma get_set_other l i j v : i <> j -> get (set l i v) j = get l j.
Proof.
  revert i j; induction l as [|x t IH]; intros [|i] [|j] H; cbn; auto; try congruence.
  apply IH; congruence.
Qed.

Lemma val_from_set l : forall i k v, (i < length l)%nat ->
  val_from k (set l i v) = val_from k l + (v - get l i) * 2 ^ (21 * Z.of_nat (k + i)).
Proof.
  induction l as [|x t IH]; intros [|i] k v H; cbn [length] in H; try lia.
  - cbn [set val_from get nth]. rewrite Nat.add_0_r. ring.
  - cbn [set val_from]. rewrite (IH i (S k) v) by lia. unfold get. cbn [nth].
    replace (S k + i)%nat with (k + S i)%nat by lia. ring.
Qed.

Lemma value_addto l i d : (i < length l)%nat -> value (addto l i d) = value l + d * 2 ^ (21 * Z.of_nat i).
Proof.
  intros H. unfold value, addto. rewrite (val_from_set l i 0 _ H). cbn [Nat.add]. ring.
Qed.

Lemma addto_length l i d : length (addto l i d) = length l.
Proof. apply set_length. Qed.

Lemma get_addto_other l i j d : i <> j -> get (addto l i d) j = get l j.
Proof. apply get_set_other. Qed.

(* a carry moves value between neighbouring limbs: the integer is unchanged *)
Lemma carry_value l i r : (S i < length l)%nat -> value (step l (Carry i r)) = value l.
Proof.
  intros H. cbn [step]. set (c := (get l i + (if r then 2 ^ 20 else 0)) / 2 ^ 21).
  rewrite value_addto by (rewrite addto_length; lia).
  rewrite value_addto by lia.
  replace (21 * Z.of_nat (S i)) with (21 * Z.of_nat i + 21) by lia.
  rewrite Z.pow_add_r by lia. ring.
Qed.

Lemma addmany_length cs : forall l base x, length (addmany l base x cs) = length l.
Proof. induction cs as [|c r IH]; intros l base x; cbn; [reflexivity|]. rewrite IH. apply addto_length. Qed.

Lemma value_addmany cs : forall l base x, (base + length cs <= length l)%nat ->
  value (addmany l base x cs) = value l + x * poly base cs.
Proof.
  induction cs as [|c r IH]; intros l base x H; cbn [addmany poly length] in *; [ring|].
  rewrite IH by (rewrite addto_length; lia). rewrite value_addto by lia. ring.
Qed.

Lemma get_addmany_other cs : forall l base x j, (base + length cs <= j)%nat ->
  get (addmany l base x cs) j = get l j.
Proof.
  induction cs as [|c r IH]; intros l base x j H; cbn [addmany length] in *; [reflexivity|].
  rewrite IH by lia. apply get_addto_other. lia.
Qed.

Lemma poly_shift cs : forall i, poly i cs = 2 ^ (21 * Z.of_nat i) * poly 0 cs.
Proof.
  induction cs as [|c r IH]; intros i; cbn [poly]; [ring|].
  rewrite (IH (S i)), (IH 1%nat). 
  replace (21 * Z.of_nat (S i)) with (21 * Z.of_nat i + 21) by lia.
  rewrite Z.pow_add_r by lia. change (21 * Z.of_nat 0) with 0. change (21 * Z.of_nat 1) with 21.
  rewrite Z.pow_0_r. ring.
Qed.

(* a fold replaces limb k by its equivalent modulo the group order *)
Lemma fold_value l k cs :
  (12 <= k < length l)%nat -> fold_ok cs = true ->
  (value (step l (Fold k cs)) - value l) mod ell = 0.
Proof.
  intros Hk Hok. unfold fold_ok in Hok. apply andb_prop in Hok. destruct Hok as [Hlen Hc].
  apply Nat.eqb_eq in Hlen. apply Z.eqb_eq in Hc. cbn [step].
  rewrite value_addto by (rewrite addmany_length; lia).
  rewrite value_addmany by lia.
  rewrite (poly_shift cs (k - 12)).
  replace (value l + get l k * (2 ^ (21 * Z.of_nat (k - 12)) * poly 0 cs) + - get l k * 2 ^ (21 * Z.of_nat k) - value l)
    with (get l k * 2 ^ (21 * Z.of_nat (k - 12)) * (poly 0 cs - 2 ^ 252)).
  - rewrite <- Z.mul_mod_idemp_r by (unfold ell; lia). rewrite Hc, Z.mul_0_r. apply Z.mod_0_l. unfold ell; lia.
  - replace (21 * Z.of_nat k) with (21 * Z.of_nat (k - 12) + 252) by lia.
    rewrite Z.pow_add_r by lia. ring.
Qed.

Lemma step_length l o : length (step l o) = length l.
Proof.
  destruct o as [i r|k cs]; cbn [step].
  - rewrite !addto_length. reflexivity.
  - rewrite addto_length, addmany_length. reflexivity.
Qed.

Lemma step_preserves l o : op_ok (length l) o = true -> (value (step l o) - value l) mod ell = 0.
Proof.
  destruct o as [i r|k cs]; cbn [op_ok]; intros H.
  - apply Nat.ltb_lt in H. rewrite carry_value by exact H. rewrite Z.sub_diag. apply Z.mod_0_l. unfold ell; lia.
  - apply andb_prop in H. destruct H as [H Hf]. apply andb_prop in H. destruct H as [H1 H2].
    apply Nat.leb_le in H1. apply Nat.ltb_lt in H2. apply fold_value; [lia|exact Hf].
Qed.

(* the whole program *)
Theorem run_preserves ops : forall l,
  forallb (op_ok (length l)) ops = true -> (value (run ops l) - value l) mod ell = 0.
Proof.
  induction ops as [|o r IH]; intros l H; cbn [run fold_left forallb] in *.
  - rewrite Z.sub_diag. apply Z.mod_0_l. unfold ell; lia.
  - apply andb_prop in H. destruct H as [Ho Hr].
    fold (run r (step l o)).
    replace (value (run r (step l o)) - value l)
      with ((value (run r (step l o)) - value (step l o)) + (value (step l o) - value l)) by ring.
    rewrite Z.add_mod by (unfold ell; lia).
    rewrite IH by (rewrite step_length; exact Hr). rewrite (step_preserves l o Ho). reflexivity.
Qed.
