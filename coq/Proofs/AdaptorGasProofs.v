From Coq Require Import ZArith NArith List Bool Lia.
From DosVerif Require Import Base.Val Models.Abi Models.Adaptor Models.AdaptorGas Proofs.AbiProofs Proofs.AdaptorProofs.
Import ListNotations.
Open Scope Z_scope.

(* ---------------------------------------------------------------- the setter's loop *)

Lemma set_first_full : forall (l : list gas) g, set_first (length l) g l = map (fun _ => g) l.
Proof. induction l as [|x l IH]; intros g; cbn; [reflexivity|rewrite IH; reflexivity]. Qed.

Lemma set_first_length : forall k g (l : list gas), length (set_first k g l) = length l.
Proof.
  induction k as [|k IH]; intros g l; destruct l as [|x l]; cbn; try reflexivity. rewrite IH. reflexivity.
Qed.

Lemma Forall_map_const {A} (g : gas) (l : list A) : Forall (eq g) (map (fun _ => g) l).
Proof. induction l as [|x l IH]; cbn; constructor; [reflexivity|exact IH]. Qed.

Lemma Forall_repeat (g : gas) n : Forall (eq g) (repeat g n).
Proof. induction n as [|n IH]; cbn; constructor; [reflexivity|exact IH]. Qed.

(* every session carries the adaptor's current setting; one proxy and one commit-reveal session per
   RPC endpoint *)
Definition wf (s : gst) : Prop :=
  Forall (eq (g_cfg s)) (g_prox s) /\ Forall (eq (g_cfg s)) (g_crs s) /\
  length (g_prox s) = length (h_alive (g_h s)) /\ length (g_crs s) = length (h_alive (g_h s)).

Lemma wf_g0 n nonce cfg : wf (g0 n nonce cfg).
Proof.
  unfold wf, g0, h0. cbn [g_cfg g_prox g_crs g_h h_alive]. rewrite !repeat_length.
  repeat split; apply Forall_repeat.
Qed.

(* ---------------------------------------------------------------- the endpoint table keeps its size *)

Lemma write1_alive_length h os : length (h_alive (fst (write1 h os))) = length (h_alive h).
Proof. unfold write1. cbv zeta. cbn [fst h_alive]. apply kill_length. Qed.

Lemma hstep_alive_length h e : length (h_alive (fst (hstep h e))) = length (h_alive h).
Proof.
  destruct e as [rs|os|k|]; cbn [hstep].
  - cbn [fst h_alive]. apply kill_length.
  - apply write1_alive_length.
  - destruct (batch k h) as [h' ns] eqn:E. cbn [fst].
    replace h' with (fst (batch k h)) by (rewrite E; reflexivity). rewrite batch_alive. reflexivity.
  - cbn [fst h_alive]. apply map_length.
Qed.

Lemma gbatch_proj : forall kinds s h, fst (gbatch kinds s h) = batch (length kinds) h.
Proof.
  induction kinds as [|cr rest IH]; intros s h; [reflexivity|].
  cbn [gbatch length batch]. destruct (write1 h (map (fun _ => OAccept) (h_alive h))) as [h1 o].
  specialize (IH s h1). destruct (gbatch rest s h1) as [[h2 ns] gs]. cbn [fst] in IH. rewrite <- IH. reflexivity.
Qed.

(* ---------------------------------------------------------------- what a transaction carries *)

Lemma write1_sent_bound h os i : In i (sent_of (snd (write1 h os))) -> (i < length (h_alive h))%nat.
Proof.
  unfold write1. cbv zeta. cbn [snd sent_of]. intros H. unfold handle_req in H.
  apply handle_sent_ge in H. destruct H as [[]|H]. rewrite combine_length in H. lia.
Qed.

Lemma gas_of_sent_ok g sess st :
  Forall (eq g) sess -> (forall i, In i st -> (i < length sess)%nat) ->
  Forall (eq (Some g)) (gas_of_sent sess st).
Proof.
  intros Hs Hb. unfold gas_of_sent. apply Forall_forall. intros x Hx. apply in_map_iff in Hx.
  destruct Hx as [i [Hx Hi]]. subst x. specialize (Hb i Hi).
  destruct (nth_error sess i) as [y|] eqn:E.
  - f_equal. apply nth_error_In in E. rewrite Forall_forall in Hs. exact (Hs y E).
  - apply nth_error_None in E. lia.
Qed.

Lemma wf_sess s cr : wf s ->
  Forall (eq (g_cfg s)) (sess_of s cr) /\ length (sess_of s cr) = length (h_alive (g_h s)).
Proof. intros [Hp [Hc [Lp Lc]]]. destruct cr; cbn [sess_of]; split; assumption. Qed.

Lemma gbatch_gas : forall kinds s h,
  (forall cr, Forall (eq (g_cfg s)) (sess_of s cr) /\ length (sess_of s cr) = length (h_alive h)) ->
  Forall (eq (Some (g_cfg s))) (snd (gbatch kinds s h)).
Proof.
  induction kinds as [|cr rest IH]; intros s h H; [constructor|].
  cbn [gbatch]. destruct (write1 h (map (fun _ => OAccept) (h_alive h))) as [h1 o] eqn:E1.
  assert (Hlen : length (h_alive h1) = length (h_alive h)).
  { replace h1 with (fst (write1 h (map (fun _ => OAccept) (h_alive h)))) by (rewrite E1; reflexivity).
    apply write1_alive_length. }
  specialize (IH s h1). destruct (gbatch rest s h1) as [[h2 ns] gs]. cbn [snd] in *.
  apply Forall_app. split.
  - apply gas_of_sent_ok; [exact (proj1 (H cr))|]. intros i Hi. rewrite (proj2 (H cr)).
    replace o with (snd (write1 h (map (fun _ => OAccept) (h_alive h)))) in Hi by (rewrite E1; reflexivity).
    eapply write1_sent_bound. exact Hi.
  - apply IH. intros c. split; [exact (proj1 (H c))|rewrite Hlen; exact (proj2 (H c))].
Qed.

(* ---------------------------------------------------------------- the invariant *)

Lemma wf_step s e : wf s -> wf (fst (gstep s e)).
Proof.
  intros [Hp [Hc [Lp Lc]]]. destruct e as [rs|cr os|kinds| |g]; cbn [gstep].
  - destruct (hstep (g_h s) (HRead rs)) as [h' o] eqn:E. cbn [fst]. unfold wf. cbn [g_cfg g_prox g_crs g_h].
    assert (L : length (h_alive h') = length (h_alive (g_h s))).
    { replace h' with (fst (hstep (g_h s) (HRead rs))) by (rewrite E; reflexivity). apply hstep_alive_length. }
    rewrite L. repeat split; assumption.
  - destruct (write1 (g_h s) os) as [h' o] eqn:E. cbn [fst]. unfold wf. cbn [g_cfg g_prox g_crs g_h].
    assert (L : length (h_alive h') = length (h_alive (g_h s))).
    { replace h' with (fst (write1 (g_h s) os)) by (rewrite E; reflexivity). apply write1_alive_length. }
    rewrite L. repeat split; assumption.
  - pose proof (gbatch_proj kinds s (g_h s)) as P.
    destruct (gbatch kinds s (g_h s)) as [[h' ns] gs]. cbn [fst] in *. unfold wf. cbn [g_cfg g_prox g_crs g_h].
    assert (L : h_alive h' = h_alive (g_h s)).
    { replace h' with (fst (batch (length kinds) (g_h s))) by (rewrite <- P; reflexivity). apply batch_alive. }
    rewrite L. repeat split; assumption.
  - destruct (hstep (g_h s) HReconnect) as [h' o] eqn:E. cbn [fst]. unfold wf. cbn [g_cfg g_prox g_crs g_h].
    assert (L : length (h_alive h') = length (h_alive (g_h s))).
    { replace h' with (fst (hstep (g_h s) HReconnect)) by (rewrite E; reflexivity). apply hstep_alive_length. }
    rewrite L, !map_length. repeat split; try assumption; apply Forall_map_const.
  - cbn [fst]. unfold set_gas, wf. cbn [g_cfg g_prox g_crs g_h].
    assert (Lpc : length (g_prox s) = length (g_crs s)) by congruence.
    rewrite <- Lpc, Nat.min_id. rewrite !set_first_length.
    rewrite set_first_full. rewrite Lpc, set_first_full.
    repeat split; try assumption; apply Forall_map_const.
Qed.

Theorem reachable_wf : forall es s, wf s -> wf (fst (grun s es)).
Proof.
  induction es as [|e es IH]; intros s H; [exact H|].
  cbn [grun]. pose proof (wf_step s e H) as H1. destruct (gstep s e) as [s1 o]. cbn [fst] in H1.
  specialize (IH s1 H1). destruct (grun s1 es) as [s2 os]. exact IH.
Qed.

(* ---------------------------------------------------------------- the settings in force *)

Definition out_gas_ok (g : gas) (o : gout) : Prop :=
  match o with GOut _ gs => Forall (eq (Some g)) gs | GOutSet => True end.

(* cfg: the setting in force before the first event: the configuration, or the latest SetGas *)
Fixpoint outs_ok (cfg : gas) (es : list gev) (outs : list gout) : Prop :=
  match es, outs with
  | [], [] => True
  | e :: es', o :: outs' =>
      out_gas_ok (match e with GSetGas g => g | _ => cfg end) o /\
      outs_ok (match e with GSetGas g => g | _ => cfg end) es' outs'
  | _, _ => False
  end.

Lemma gstep_cfg s e : g_cfg (fst (gstep s e)) = match e with GSetGas g => g | _ => g_cfg s end.
Proof.
  destruct e as [rs|cr os|kinds| |g]; cbn [gstep].
  - destruct (hstep (g_h s) (HRead rs)); reflexivity.
  - destruct (write1 (g_h s) os); reflexivity.
  - destruct (gbatch kinds s (g_h s)) as [[h' ns] gs]; reflexivity.
  - destruct (hstep (g_h s) HReconnect); reflexivity.
  - reflexivity.
Qed.

Lemma gstep_out_ok s e : wf s -> out_gas_ok (g_cfg (fst (gstep s e))) (snd (gstep s e)).
Proof.
  intros H. rewrite gstep_cfg. destruct e as [rs|cr os|kinds| |g]; cbn [gstep].
  - destruct (hstep (g_h s) (HRead rs)). cbn. constructor.
  - destruct (write1 (g_h s) os) as [h' o] eqn:E. cbn [snd out_gas_ok].
    destruct (wf_sess s cr H) as [Hs Hl]. apply gas_of_sent_ok; [exact Hs|].
    intros i Hi. rewrite Hl. replace o with (snd (write1 (g_h s) os)) in Hi by (rewrite E; reflexivity).
    eapply write1_sent_bound. exact Hi.
  - pose proof (gbatch_gas kinds s (g_h s) (fun cr => wf_sess s cr H)) as G.
    destruct (gbatch kinds s (g_h s)) as [[h' ns] gs]. cbn [snd out_gas_ok] in *. exact G.
  - destruct (hstep (g_h s) HReconnect). cbn. constructor.
  - exact I.
Qed.

(* over ANY history - reads, calls with any outcomes at the endpoints, bursts, reconnects, setting
   changes - every transaction any endpoint receives carries the setting in force when its call was
   made: the configuration, or the operator's latest SetGas *)
Theorem gas_in_force : forall es s, wf s -> outs_ok (g_cfg s) es (snd (grun s es)).
Proof.
  induction es as [|e es IH]; intros s H; [exact I|].
  cbn [grun]. pose proof (wf_step s e H) as H1. pose proof (gstep_cfg s e) as Hc.
  pose proof (gstep_out_ok s e H) as Ho.
  destruct (gstep s e) as [s1 o]. cbn [fst snd] in *. specialize (IH s1 H1).
  destruct (grun s1 es) as [s2 os]. cbn [snd] in *. cbn [outs_ok]. rewrite <- Hc. split; [exact Ho|exact IH].
Qed.

(* ---------------------------------------------------------------- the layer is transparent *)

(* forgetting the settings, a gas-layer history IS the adaptor history of Models/Adaptor.v: the
   theorems about nonces, fail-over and switched-off endpoints apply to it unchanged *)
Theorem gas_layer_transparent : forall es s,
  hrun (g_h s) (omap hev_of es) = (g_h (fst (grun s es)), omap hout_of (snd (grun s es))).
Proof.
  induction es as [|e es IH]; intros s; [reflexivity|].
  destruct e as [rs|cr os|kinds| |g]; cbn [omap hev_of grun gstep hrun].
  - cbn [hstep]. set (h' := mkh _ _). set (o := OutRead _).
    specialize (IH (mkg h' (g_cfg s) (g_prox s) (g_crs s))). cbn [g_h] in IH. rewrite IH.
    destruct (grun _ es) as [s2 os]. reflexivity.
  - cbn [hstep]. destruct (write1 (g_h s) os) as [h' o].
    specialize (IH (mkg h' (g_cfg s) (g_prox s) (g_crs s))). cbn [g_h] in IH. rewrite IH.
    destruct (grun _ es) as [s2 os']. reflexivity.
  - cbn [hstep]. pose proof (gbatch_proj kinds s (g_h s)) as P.
    destruct (gbatch kinds s (g_h s)) as [[h' ns] gs]. cbn [fst] in P. rewrite <- P.
    specialize (IH (mkg h' (g_cfg s) (g_prox s) (g_crs s))). cbn [g_h] in IH. rewrite IH.
    destruct (grun _ es) as [s2 os']. reflexivity.
  - cbn [hstep].
    specialize (IH (mkg (mkh (map (fun _ => true) (h_alive (g_h s))) (h_nonce (g_h s))) (g_cfg s)
                        (map (fun _ => g_cfg s) (g_prox s)) (map (fun _ => g_cfg s) (g_crs s)))).
    cbn [g_h] in IH. rewrite IH. destruct (grun _ es) as [s2 os']. reflexivity.
  - specialize (IH (set_gas s g)). unfold set_gas in IH at 1. cbn [g_h] in IH. rewrite IH.
    destruct (grun (set_gas s g) es) as [s2 os']. reflexivity.
Qed.

(* the variant of the setter that also walks the websocket sessions stops early on a node with
   fewer websocket than RPC endpoints: a session keeps the old setting *)
Definition set_gas_short (nws : nat) (s : gst) (g : gas) : gst :=
  let k := Nat.min (Nat.min (length (g_prox s)) (length (g_crs s))) nws in
  mkg (g_h s) g (set_first k g (g_prox s)) (set_first k g (g_crs s)).

Example short_setter_refuted :
  ~ wf (set_gas_short 1 (g0 2 7 (5, 6)) (8, 9)).
Proof.
  unfold wf. vm_compute. intros [H _]. inversion H as [|x l _ H2]. inversion H2 as [|y l' H3 _]. discriminate H3.
Qed.
