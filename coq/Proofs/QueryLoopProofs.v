(* QueryLoopProofs.v -- C13: every share delivered for a request reaches that request exactly
   once, in arrival order, wherever the registration falls; no cross-over; other requests'
   events (arrivals, registrations, cancellations, sweeps) change nothing for it. *)
From Coq Require Import ZArith NArith List Bool Lia.
From DosVerif Require Import Base.Val Models.QueryLoop.
Import ListNotations.

(* ---------------------------------------------------------------- association lists *)

Lemma lookup_update_eq {A} k (v : A) m : lookup k (update k v m) = Some v.
Proof. unfold update. cbn. rewrite N.eqb_refl. reflexivity. Qed.

Lemma lookup_remove_eq {A} k (m : list (N * A)) : lookup k (remove k m) = None.
Proof.
  induction m as [|[k' v] m IH]; [reflexivity|]. cbn. destruct (N.eqb k k') eqn:E; [exact IH|].
  cbn. rewrite E. exact IH.
Qed.

Lemma lookup_remove_neq {A} k k' (m : list (N * A)) : k' <> k -> lookup k' (remove k m) = lookup k' m.
Proof.
  intros Hne. induction m as [|[k2 v] m IH]; [reflexivity|]. cbn.
  destruct (N.eqb k k2) eqn:E.
  - apply N.eqb_eq in E. subst k2. replace (N.eqb k' k) with false by (symmetry; apply N.eqb_neq; exact Hne). exact IH.
  - cbn. destruct (N.eqb k' k2); [reflexivity|exact IH].
Qed.

Lemma lookup_update_neq {A} k k' (v : A) m : k' <> k -> lookup k' (update k v m) = lookup k' m.
Proof.
  intros Hne. unfold update. cbn. replace (N.eqb k' k) with false by (symmetry; apply N.eqb_neq; exact Hne).
  apply lookup_remove_neq. exact Hne.
Qed.

Lemma lookup_in {A} k (v : A) m : lookup k m = Some v -> In (k, v) m.
Proof.
  induction m as [|[k' v'] m IH]; [discriminate|]. cbn. destruct (N.eqb k k') eqn:E.
  - apply N.eqb_eq in E. intros [= ->]. left. subst. reflexivity.
  - intros H. right. apply IH. exact H.
Qed.

Lemma in_remove {A} k (m : list (N * A)) kv : In kv (remove k m) -> In kv m.
Proof.
  induction m as [|[k' v] m IH]; [tauto|]. cbn. destruct (N.eqb k k').
  - intros H. right. apply IH. exact H.
  - intros [H|H]; [left; exact H|right; apply IH; exact H].
Qed.

Lemma lookup_filter_some {A} (P : N * A -> bool) k v m :
  lookup k m = Some v -> P (k, v) = true -> lookup k (filter P m) = Some v.
Proof.
  induction m as [|[k' v'] m IH]; [discriminate|]. cbn. destruct (N.eqb k k') eqn:E.
  - apply N.eqb_eq in E. subst k'. intros [= ->] HP. rewrite HP. cbn. rewrite N.eqb_refl. reflexivity.
  - intros H HP. destruct (P (k', v')); [cbn; rewrite E|]; apply IH; assumption.
Qed.

Lemma lookup_filter_none {A} (P : N * A -> bool) k m :
  lookup k m = None -> lookup k (filter P m) = None.
Proof.
  induction m as [|[k' v'] m IH]; [reflexivity|]. cbn. destruct (N.eqb k k') eqn:E; [discriminate|].
  intros H. destruct (P (k', v')); [cbn; rewrite E|]; apply IH; exact H.
Qed.

Lemma lookup_none_not_in {A} k (m : list (N * A)) : lookup k m = None -> forall v, ~ In (k, v) m.
Proof.
  induction m as [|[k' v'] m IH]; [intros _ v []|]. cbn. destruct (N.eqb k k') eqn:E; [discriminate|].
  intros H v [Hin|Hin]; [injection Hin as -> _; rewrite N.eqb_refl in E; discriminate|exact (IH H v Hin)].
Qed.

(* removing keys other than k leaves k's entry alone *)
Lemma lookup_fold_remove {A B} k (dead : list (N * B)) (m : list (N * A)) :
  (forall kv, In kv dead -> fst kv <> k) ->
  lookup k (fold_left (fun b kv => remove (fst kv) b) dead m) = lookup k m.
Proof.
  revert m; induction dead as [|d dead IH]; intros m H; [reflexivity|]. cbn [fold_left].
  rewrite IH by (intros kv Hkv; apply H; right; exact Hkv).
  apply lookup_remove_neq. intros E. apply (H d (or_introl eq_refl)). symmetry. exact E.
Qed.

Lemma lookup_remove_none {A} k k' (m : list (N * A)) : lookup k m = None -> lookup k (remove k' m) = None.
Proof.
  destruct (N.eq_dec k k') as [->|Hne]; [intros _; apply lookup_remove_eq|].
  intros H. rewrite lookup_remove_neq by exact Hne. exact H.
Qed.

Lemma lookup_fold_remove_or {A B} k (dead : list (N * B)) (m : list (N * A)) :
  lookup k (fold_left (fun b kv => remove (fst kv) b) dead m) = lookup k m \/
  lookup k (fold_left (fun b kv => remove (fst kv) b) dead m) = None.
Proof.
  revert m; induction dead as [|d dead IH]; intros m; [left; reflexivity|]. cbn [fold_left].
  destruct (IH (remove (fst d) m)) as [H|H]; [|right; exact H].
  destruct (N.eq_dec k (fst d)) as [->|Hne].
  - right. rewrite H. apply lookup_remove_eq.
  - left. rewrite H. apply lookup_remove_neq. exact Hne.
Qed.

(* ---------------------------------------------------------------- deliveries *)

Lemma deliveries_app r o1 o2 : deliveries_to r (o1 ++ o2) = deliveries_to r o1 ++ deliveries_to r o2.
Proof. unfold deliveries_to. rewrite filter_app, map_app. reflexivity. Qed.

Lemma deliveries_map_same r l : deliveries_to r (map (fun x => (r, x)) l) = l.
Proof.
  unfold deliveries_to. induction l as [|x l IH]; [reflexivity|]. cbn. rewrite N.eqb_refl. cbn. f_equal. exact IH.
Qed.

Lemma deliveries_map_other r r' l : r' <> r -> deliveries_to r (map (fun x => (r', x)) l) = [].
Proof.
  intros Hne. unfold deliveries_to. induction l as [|x l IH]; [reflexivity|]. cbn.
  replace (N.eqb r' r) with false by (symmetry; apply N.eqb_neq; exact Hne). exact IH.
Qed.

Definition peers (id : N) (es : list ev) : list N :=
  flat_map (fun e => match e with Peer id' x => if N.eqb id' id then [x] else [] | _ => [] end) es.

Section OneRequest.
Variables (id r : N).

(* the events that concern request (id, r) are well formed *)
Definition wf_events (es : list ev) : Prop :=
  ~ In (Cancel r) es /\
  (forall r', In (Register id r') es -> r' = r) /\
  (forall id', In (Register id' r) es -> id' = id).

Definition inv (s : st) : Prop :=
  is_cancelled s r = false /\
  (forall id', id' <> id -> ~ In (id', r) (reg s)) /\
  ((lookup id (reg s) = Some r /\ buf_of s id = []) \/ lookup id (reg s) = None).

Definition expected (s : st) (es : list ev) : list N :=
  match lookup id (reg s) with
  | Some _ => peers id es
  | None => if existsb (fun e => match e with Register id' r' => N.eqb id' id && N.eqb r' r | _ => false end) es
            then buf_of s id ++ peers id es else []
  end.

Lemma wf_tail e es : wf_events (e :: es) -> wf_events es.
Proof.
  intros [H1 [H2 H3]]. split; [intros H; apply H1; right; exact H|].
  split; [intros r' H; apply H2; right; exact H|intros id' H; apply H3; right; exact H].
Qed.

Lemma is_cancelled_cons s x : is_cancelled (mkst (buf s) (reg s) (x :: cancelled s)) r = N.eqb r x || is_cancelled s r.
Proof. reflexivity. Qed.

Lemma step_inv s e : wf_events [e] -> inv s -> inv (fst (step s e)).
Proof.
  intros [H1 [H2 H3]] [Hc [Hother Hreg]]. destruct e as [id' x|id' r'|r'|]; cbn [step].
  - (* Peer *)
    destruct (lookup id' (reg s)) as [r0|] eqn:El; cbn [fst]; [split; [exact Hc|split; [exact Hother|exact Hreg]]|].
    split; [exact Hc|]. split; [exact Hother|]. cbn [reg].
    destruct Hreg as [[Hl Hb]|Hl]; [|right; exact Hl]. left. split; [exact Hl|].
    unfold buf_of. cbn [buf].
    destruct (N.eq_dec id' id) as [->|Hne]; [congruence|].
    rewrite lookup_update_neq by (intros E; apply Hne; symmetry; exact E). exact Hb.
  - (* Register *)
    cbn [fst]. split; [exact Hc|]. cbn [reg buf]. split.
    + intros id2 Hne Hin. unfold update in Hin. destruct Hin as [Hin|Hin].
      * injection Hin as -> ->. apply Hne. apply H3. left. reflexivity.
      * apply in_remove in Hin. exact (Hother id2 Hne Hin).
    + destruct (N.eq_dec id' id) as [->|Hne].
      * left. assert (r' = r) as -> by (apply H2; left; reflexivity).
        split; [apply lookup_update_eq|]. unfold buf_of. cbn [buf]. rewrite lookup_remove_eq. reflexivity.
      * destruct Hreg as [[Hl Hb]|Hl].
        -- left. split; [rewrite lookup_update_neq by (intros E; apply Hne; symmetry; exact E); exact Hl|].
           unfold buf_of. cbn [buf]. rewrite lookup_remove_neq by (intros E; apply Hne; symmetry; exact E). exact Hb.
        -- right. rewrite lookup_update_neq by (intros E; apply Hne; symmetry; exact E). exact Hl.
  - (* Cancel *)
    cbn [fst]. split.
    + rewrite is_cancelled_cons, Hc.
      replace (N.eqb r r') with false; [reflexivity|]. symmetry. apply N.eqb_neq. intros ->. apply H1. left. reflexivity.
    + split; [exact Hother|exact Hreg].
  - (* Watchdog *)
    cbn [fst]. split; [exact Hc|]. cbn [reg buf]. split.
    + intros id2 Hne Hin. apply filter_In in Hin. exact (Hother id2 Hne (proj1 Hin)).
    + destruct Hreg as [[Hl Hb]|Hl].
      * left. split.
        -- apply lookup_filter_some; [exact Hl|]. cbn [snd]. rewrite Hc. reflexivity.
        -- unfold buf_of in *. cbn [buf].
           destruct (lookup_fold_remove_or id (filter (fun kv => is_cancelled s (snd kv)) (reg s)) (buf s)) as [E|E];
             rewrite E; [exact Hb|reflexivity].
      * right. apply lookup_filter_none. exact Hl.
Qed.

Lemma wf_head e es : wf_events (e :: es) -> wf_events [e].
Proof.
  intros [H1 [H2 H3]]. split; [intros [H|[]]; apply H1; left; exact H|].
  split; [intros r' [H|[]]; apply H2; left; exact H|intros id' [H|[]]; apply H3; left; exact H].
Qed.

Definition is_reg (e : ev) : bool :=
  match e with Register id' r' => N.eqb id' id && N.eqb r' r | _ => false end.

Lemma buf_of_update_eq s k l : buf_of (mkst (update k l (buf s)) (reg s) (cancelled s)) k = l.
Proof. unfold buf_of. cbn [buf]. rewrite lookup_update_eq. reflexivity. Qed.

Lemma run_expected : forall es s, wf_events es -> inv s ->
  deliveries_to r (snd (run s es)) = expected s es.
Proof.
  induction es as [|e es IH]; intros s Hwf Hinv.
  - cbn. unfold expected. destruct (lookup id (reg s)); reflexivity.
  - cbn [run]. destruct (step s e) as [s1 o1] eqn:Es.
    destruct (run s1 es) as [s2 o2] eqn:Er. cbn [snd]. rewrite deliveries_app.
    assert (Hinv1 : inv s1).
    { pose proof (step_inv s e (wf_head e es Hwf) Hinv) as H. rewrite Es in H. exact H. }
    pose proof (IH s1 (wf_tail e es Hwf) Hinv1) as IH1. rewrite Er in IH1. cbn [snd] in IH1. rewrite IH1.
    clear IH IH1 Er s2 o2.
    destruct Hwf as [Hw1 [Hw2 Hw3]]. destruct Hinv as [Hc [Hother Hreg]].
    destruct e as [id' x|id' r'|r'|]; cbn [step] in Es.
    + (* Peer *)
      destruct (lookup id' (reg s)) as [r0|] eqn:El; injection Es as <- <-.
      * destruct (N.eq_dec id' id) as [->|Hne].
        -- assert (r0 = r) as -> by (destruct Hreg as [[Hl _]|Hl]; congruence).
           rewrite Hc. unfold expected. rewrite El. cbn [peers flat_map]. rewrite N.eqb_refl.
           cbn. rewrite N.eqb_refl. reflexivity.
        -- assert (Hr0 : r0 <> r).
           { intros ->. apply (Hother id' Hne). apply lookup_in. exact El. }
           assert (Hd : deliveries_to r (if is_cancelled s r0 then [] else [(r0, x)]) = []).
           { destruct (is_cancelled s r0); [reflexivity|]. cbn.
             replace (N.eqb r0 r) with false by (symmetry; apply N.eqb_neq; exact Hr0). reflexivity. }
           rewrite Hd. unfold expected. cbn [peers flat_map existsb].
           replace (N.eqb id' id) with false by (symmetry; apply N.eqb_neq; exact Hne). reflexivity.
      * cbn [deliveries_to filter map app]. unfold expected. cbn [reg existsb peers flat_map].
        destruct (N.eq_dec id' id) as [->|Hne].
        -- rewrite El, N.eqb_refl. rewrite buf_of_update_eq.
           destruct (existsb _ es); [rewrite <- app_assoc; reflexivity|reflexivity].
        -- replace (N.eqb id' id) with false by (symmetry; apply N.eqb_neq; exact Hne).
           cbn [app]. unfold buf_of. cbn [buf]. rewrite lookup_update_neq by (intros E; apply Hne; symmetry; exact E).
           reflexivity.
    + (* Register *)
      injection Es as <- <-. unfold expected. cbn [reg buf existsb peers flat_map app].
      destruct (N.eq_dec id' id) as [->|Hne].
      * assert (r' = r) as -> by (apply Hw2; left; reflexivity).
        rewrite Hc, deliveries_map_same, lookup_update_eq, !N.eqb_refl. cbn [andb orb].
        destruct Hreg as [[Hl Hb]|Hl]; rewrite Hl; [rewrite Hb; reflexivity|reflexivity].
      * assert (Hr : r' <> r).
        { intros ->. apply Hne. apply Hw3. left. reflexivity. }
        assert (Hd : deliveries_to r (if is_cancelled s r' then [] else map (fun x => (r', x)) (buf_of s id')) = []).
        { destruct (is_cancelled s r'); [reflexivity|]. apply deliveries_map_other. exact Hr. }
        rewrite Hd. cbn [app].
        rewrite lookup_update_neq by (intros E; apply Hne; symmetry; exact E).
        replace (N.eqb id' id) with false by (symmetry; apply N.eqb_neq; exact Hne). cbn [andb orb].
        unfold buf_of. cbn [buf]. rewrite lookup_remove_neq by (intros E; apply Hne; symmetry; exact E).
        reflexivity.
    + (* Cancel *)
      injection Es as <- <-. reflexivity.
    + (* Watchdog *)
      injection Es as <- <-. unfold expected. cbn [reg buf existsb peers flat_map app deliveries_to filter map].
      destruct Hreg as [[Hl Hb]|Hl].
      * rewrite Hl. rewrite (lookup_filter_some _ id r (reg s) Hl); [reflexivity|].
        cbn [snd]. rewrite Hc. reflexivity.
      * rewrite Hl, (lookup_filter_none _ id (reg s) Hl).
        unfold buf_of. cbn [buf]. rewrite lookup_fold_remove; [reflexivity|].
        intros [k v] Hkv E. cbn [fst] in E. subst k. apply filter_In in Hkv.
        exact (lookup_none_not_in id (reg s) Hl v (proj1 Hkv)).
Qed.

Lemma inv_st0 : inv st0.
Proof. split; [reflexivity|]. split; [intros id' _ []|right; reflexivity]. Qed.

(* C13, exactly once: the shares handed to request r are exactly the arrivals for its id, each
   once, in arrival order -- all of them if the request is registered at some point (before,
   between or after the arrivals), none otherwise *)
Theorem exactly_once (es : list ev) :
  wf_events es ->
  deliveries_to r (snd (run st0 es)) = if existsb is_reg es then peers id es else [].
Proof. intros Hwf. rewrite (run_expected es st0 Hwf inv_st0). reflexivity. Qed.

(* events that concern this request: its arrivals, its registration, its cancellation *)
Definition relevant (e : ev) : bool :=
  match e with
  | Peer id' _ => N.eqb id' id
  | Register id' r' => N.eqb id' id || N.eqb r' r
  | Cancel r' => N.eqb r' r
  | Watchdog => false
  end.

Lemma wf_filter es : wf_events es -> wf_events (filter relevant es).
Proof.
  intros [H1 [H2 H3]]. split; [intros H; apply filter_In in H; apply H1; tauto|].
  split; [intros r' H; apply filter_In in H; apply H2; tauto|intros id' H; apply filter_In in H; apply H3; tauto].
Qed.

Lemma peers_filter es : peers id (filter relevant es) = peers id es.
Proof.
  induction es as [|e es IH]; [reflexivity|]. cbn [filter].
  destruct e as [id' x|id' r'|r'|]; cbn [relevant].
  - destruct (N.eqb id' id) eqn:E; cbn [peers flat_map]; rewrite ?E; fold (peers id es); fold (peers id (filter relevant es)); rewrite IH; reflexivity.
  - destruct (N.eqb id' id || N.eqb r' r); cbn [peers flat_map]; fold (peers id es); fold (peers id (filter relevant es)); exact IH.
  - destruct (N.eqb r' r); cbn [peers flat_map]; fold (peers id es); fold (peers id (filter relevant es)); exact IH.
  - exact IH.
Qed.

Lemma is_reg_filter es : existsb is_reg (filter relevant es) = existsb is_reg es.
Proof.
  induction es as [|e es IH]; [reflexivity|]. cbn [filter existsb].
  destruct e as [id' x|id' r'|r'|]; cbn [relevant is_reg].
  - destruct (N.eqb id' id); cbn [existsb is_reg]; exact IH.
  - destruct (N.eqb id' id) eqn:E1, (N.eqb r' r) eqn:E2; cbn [orb andb existsb is_reg]; rewrite ?E1, ?E2; cbn [orb andb]; rewrite ?IH; reflexivity.
  - destruct (N.eqb r' r); cbn [existsb is_reg]; exact IH.
  - exact IH.
Qed.

(* C13, frame: whatever happens to other requests (arrivals, registrations, cancellations,
   completions, sweeps) does not change what this request receives *)
Theorem frame (es : list ev) :
  wf_events es ->
  deliveries_to r (snd (run st0 es)) = deliveries_to r (snd (run st0 (filter relevant es))).
Proof.
  intros Hwf. rewrite (exactly_once es Hwf), (exactly_once _ (wf_filter es Hwf)).
  rewrite is_reg_filter, peers_filter. reflexivity.
Qed.

End OneRequest.

(* ---------------------------------------------------------------- no cross-over *)

Lemma buf_of_step s e id' x :
  In x (buf_of (fst (step s e)) id') -> In x (buf_of s id') \/ e = Peer id' x.
Proof.
  destruct e as [k y|k r'|r'|]; cbn [step].
  - destruct (lookup k (reg s)); cbn [fst]; [tauto|].
    unfold buf_of at 1. cbn [buf]. destruct (N.eq_dec id' k) as [->|Hne].
    + rewrite lookup_update_eq. intros H. apply in_app_iff in H. destruct H as [H|[<-|[]]]; [left; exact H|right; reflexivity].
    + rewrite lookup_update_neq by exact Hne. tauto.
  - cbn [fst]. unfold buf_of at 1. cbn [buf]. destruct (N.eq_dec id' k) as [->|Hne].
    + rewrite lookup_remove_eq. intros [].
    + rewrite lookup_remove_neq by exact Hne. tauto.
  - cbn [fst]. tauto.
  - cbn [fst]. unfold buf_of at 1. cbn [buf].
    destruct (lookup_fold_remove_or id' (filter (fun kv => is_cancelled s (snd kv)) (reg s)) (buf s)) as [E|E];
      rewrite E; [tauto|intros []].
Qed.

Lemma reg_step s e id' r' :
  In (id', r') (reg (fst (step s e))) -> In (id', r') (reg s) \/ e = Register id' r'.
Proof.
  destruct e as [k y|k r0|r0|]; cbn [step].
  - destruct (lookup k (reg s)); cbn [fst reg]; tauto.
  - cbn [fst reg]. unfold update. intros [H|H]; [right; injection H as -> ->; reflexivity|left; apply in_remove in H; exact H].
  - cbn [fst reg]. tauto.
  - cbn [fst reg]. intros H. apply filter_In in H. tauto.
Qed.

Lemma out_step s e r' x :
  In (r', x) (snd (step s e)) ->
  exists id', (e = Peer id' x /\ In (id', r') (reg s)) \/ (e = Register id' r' /\ In x (buf_of s id')).
Proof.
  destruct e as [k y|k r0|r0|]; cbn [step].
  - destruct (lookup k (reg s)) as [r1|] eqn:El; cbn [snd]; [|intros []].
    destruct (is_cancelled s r1); [intros []|]. intros [H|[]]. injection H as -> ->.
    exists k. left. split; [reflexivity|apply lookup_in; exact El].
  - cbn [snd]. destruct (is_cancelled s r0); [intros []|]. intros H. apply in_map_iff in H.
    destruct H as [y [E Hy]]. injection E as -> ->. exists k. right. tauto.
  - intros [].
  - intros [].
Qed.

Theorem no_crossover_gen : forall es s r' x,
  In (r', x) (snd (run s es)) ->
  exists id', (In (Peer id' x) es \/ In x (buf_of s id')) /\
              (In (Register id' r') es \/ In (id', r') (reg s)).
Proof.
  induction es as [|e es IH]; intros s r' x H; [destruct H|].
  cbn [run] in H. destruct (step s e) as [s1 o1] eqn:Es. destruct (run s1 es) as [s2 o2] eqn:Er.
  cbn [snd] in H. apply in_app_iff in H. destruct H as [H|H].
  - assert (H' : In (r', x) (snd (step s e))) by (rewrite Es; exact H).
    destruct (out_step s e r' x H') as [id' [[He Hr]|[He Hb]]]; subst e; exists id'.
    + split; [left; left; reflexivity|right; exact Hr].
    + split; [right; exact Hb|left; left; reflexivity].
  - assert (H' : In (r', x) (snd (run s1 es))) by (rewrite Er; exact H).
    destruct (IH s1 r' x H') as [id' [Hp Hr]]. exists id'.
    assert (Es1 : s1 = fst (step s e)) by (rewrite Es; reflexivity). split.
    + destruct Hp as [Hp|Hp]; [left; right; exact Hp|].
      rewrite Es1 in Hp. destruct (buf_of_step s e id' x Hp) as [Hb|He]; [right; exact Hb|left; left; exact He].
    + destruct Hr as [Hr|Hr]; [left; right; exact Hr|].
      rewrite Es1 in Hr. destruct (reg_step s e id' r' Hr) as [Hb|He]; [right; exact Hb|left; left; exact He].
Qed.

(* a share handed to handle r' arrived for an id that r' was registered for *)
Theorem no_crossover (es : list ev) (r' x : N) :
  In (r', x) (snd (run st0 es)) ->
  exists id', In (Peer id' x) es /\ In (Register id' r') es.
Proof.
  intros H. destruct (no_crossover_gen es st0 r' x H) as [id' [[Hp|[]] [Hr|[]]]]. exists id'. tauto.
Qed.
