From Coq Require Import ZArith List Bool Lia.
From DosVerif Require Import Base.Val Base.Field Models.Bn Proofs.BnCodecProofs.
Import ListNotations.
Local Open Scope Z_scope.

Lemma fp2_eqb_iff (a b : Fp2) : feqb fp2o a b = true <-> a = b.
Proof.
  destruct a as [a1 a0], b as [b1 b0]. cbn. unfold fp2_eqb; cbn [c1 c0]. rewrite andb_true_iff.
  rewrite !fp_eqb_iff. split; [intros [-> ->]; reflexivity|intros [= -> ->]; split; reflexivity].
Qed.

Definition g2_affine (a : jac (K:=Fp2)) : Prop := jz a = f1 fp2o \/ a = jac_inf fp2o.

Lemma make_affine2_is_affine (a : jac (K:=Fp2)) : g2_affine (make_affine fp2o a).
Proof.
  unfold make_affine. destruct (feqb fp2o (jz a) (f1 fp2o)) eqn:E1.
  - left. apply fp2_eqb_iff. exact E1.
  - destruct (feqb fp2o (jz a) (f0 fp2o)); [right; reflexivity|left; reflexivity].
Qed.

Lemma make_affine2_idem (a : jac (K:=Fp2)) : make_affine fp2o (make_affine fp2o a) = make_affine fp2o a.
Proof.
  destruct (make_affine2_is_affine a) as [H|H].
  - unfold make_affine at 1. rewrite H. replace (feqb fp2o (f1 fp2o) (f1 fp2o)) with true by reflexivity. reflexivity.
  - rewrite H. reflexivity.
Qed.

Lemma skipn_add {A} (l : list A) a b : skipn (a + b) l = skipn b (skipn a l).
Proof.
  revert l; induction a as [|a IH]; intros l; [reflexivity|].
  destruct l as [|x l]; cbn [Nat.add skipn]; [destruct b; reflexivity|apply IH].
Qed.

Theorem g2_roundtrip (a : jac (K:=Fp2)) :
  g2_on_curve a = true -> g2_unmarshal (g2_marshal a) = Some (make_affine fp2o a).
Proof.
  intros Hc. unfold g2_marshal. set (m := make_affine fp2o a).
  assert (Hcm : g2_on_curve m = true).
  { unfold g2_on_curve in *. unfold m. rewrite make_affine2_idem. exact Hc. }
  destruct (is_inf fp2o m) eqn:Ei.
  - assert (Hm : m = jac_inf fp2o).
    { destruct (make_affine2_is_affine a) as [H|H]; [|exact H]. fold m in H.
      unfold is_inf in Ei. rewrite H in Ei. discriminate. }
    rewrite Hm. reflexivity.
  - assert (Hz : jz m = f1 fp2o).
    { destruct (make_affine2_is_affine a) as [H|H]; [exact H|]. fold m in H. rewrite H in Ei. discriminate. }
    cbn [app]. unfold g2_unmarshal.
    cbn [length]. rewrite !app_length, !be_bytes_length. cbn [Nat.add Nat.ltb Nat.leb].
    set (B1 := be_bytes 32 (zv (c1 (jx m)))). set (B2 := be_bytes 32 (zv (c0 (jx m)))).
    set (B3 := be_bytes 32 (zv (c1 (jy m)))). set (B4 := be_bytes 32 (zv (c0 (jy m)))).
    assert (L1 : length B1 = 32%nat) by apply be_bytes_length.
    assert (L2 : length B2 = 32%nat) by apply be_bytes_length.
    assert (L3 : length B3 = 32%nat) by apply be_bytes_length.
    assert (L4 : length B4 = 32%nat) by apply be_bytes_length.
    assert (S1 : skipn (32 * 1) (B1 ++ B2 ++ B3 ++ B4) = B2 ++ B3 ++ B4) by (apply skipn_app_exact; exact L1).
    assert (S2 : skipn (32 * 2) (B1 ++ B2 ++ B3 ++ B4) = B3 ++ B4).
    { replace (32 * 2)%nat with (32 + 32)%nat by reflexivity. rewrite skipn_add. rewrite (skipn_app_exact B1 _ 32 L1).
      apply skipn_app_exact; exact L2. }
    assert (S3 : skipn (32 * 3) (B1 ++ B2 ++ B3 ++ B4) = B4).
    { replace (32 * 3)%nat with (32 + (32 + 32))%nat by reflexivity. rewrite !skipn_add. rewrite (skipn_app_exact B1 _ 32 L1).
      rewrite (skipn_app_exact B2 _ 32 L2). apply skipn_app_exact; exact L3. }
    assert (S0 : skipn (32 * 0) (B1 ++ B2 ++ B3 ++ B4) = B1 ++ B2 ++ B3 ++ B4) by reflexivity.
    rewrite S0, S1, S2, S3.
    rewrite !(firstn_app_exact _ _ 32) by assumption.
    rewrite (firstn_all2 (n:=32) B4) by lia.
    unfold B1, B2, B3, B4. rewrite !fp_word.
    assert (Hx : mkfp2 (c1 (jx m)) (c0 (jx m)) = jx m) by (destruct (jx m); reflexivity).
    assert (Hy : mkfp2 (c1 (jy m)) (c0 (jy m)) = jy m) by (destruct (jy m); reflexivity).
    rewrite Hx, Hy.
    assert (Hpt : mkjac (jx m) (jy m) (f1 fp2o) = m) by (destruct m as [x y z]; cbn in *; rewrite Hz; reflexivity).
    change (fp2_eqb fp_ops) with (feqb fp2o).
    destruct (feqb fp2o (jx m) (f0 fp2o) && feqb fp2o (jy m) (f0 fp2o)) eqn:E0.
    + exfalso. apply andb_true_iff in E0. destruct E0 as [Ex Ey].
      apply fp2_eqb_iff in Ex, Ey.
      assert (Hm2 : make_affine fp2o m = m) by (unfold m; apply make_affine2_idem).
      unfold g2_on_curve in Hcm. rewrite Hm2, Ei in Hcm.
      unfold on_curve_affine in Hcm. rewrite Hm2, Ei in Hcm. rewrite Ex, Ey in Hcm. vm_compute in Hcm. discriminate.
    + match goal with |- context [g2_on_curve ?p] => replace p with m by (symmetry; exact Hpt) end.
      rewrite Hcm. reflexivity.
Qed.

Theorem g2_injective (a b : jac (K:=Fp2)) :
  g2_on_curve a = true -> g2_on_curve b = true ->
  g2_marshal a = g2_marshal b -> make_affine fp2o a = make_affine fp2o b.
Proof.
  intros Ha Hb E. pose proof (g2_roundtrip a Ha) as Ra. pose proof (g2_roundtrip b Hb) as Rb.
  rewrite E in Ra. congruence.
Qed.

(* non-vacuity: the G2 generator passes the full membership test (twist equation and [q]P = O: a
   254-bit scalar multiplication over F_p^2, ~80 s inside Coq - compiled once, here) and round-trips *)
Lemma g2_gen_in_subgroup : g2_on_curve g2_gen = true.
Proof. vm_compute. reflexivity. Qed.

Lemma g2_gen_roundtrips : g2_unmarshal (g2_marshal g2_gen) = Some (make_affine fp2o g2_gen).
Proof. apply g2_roundtrip. exact g2_gen_in_subgroup. Qed.
