(* DkgProofs.v -- C05 / C04: agreement of honest members in key generation (models Vss.v, Dkg.v,
   repaired code). *)
From Coq Require Import ZArith List Bool Lia.
From DosVerif Require Import Base.Val Base.Field Models.Share Models.Tbls Models.Vss Models.Dkg
     Proofs.PolyLemmas Proofs.ShareProofs Proofs.TblsProofs Proofs.VssProofs.
Import ListNotations.
Local Open Scope Z_scope.

Section DkgProofs.
Context {F : Type}.
Variable O : Fops F.
Hypothesis L : Flaws O.
Notation M := (self_gops O).

(* ---------------------------------------------------------------- session ids *)

Lemma sid_eqb_eq (a b : sid (F:=F)) : sid_eqb O a b = true -> a = b.
Proof.
  destruct a as [d m c t|k], b as [d' m' c' t'|k']; cbn; try discriminate.
  - rewrite !andb_true_iff. intros [[[H1 H2] H3] H4].
    apply Z.eqb_eq in H1, H4. apply (zlist_eqb_eq) in H2.
    apply (list_eqb_iff _ c c' (F_eqb O L)) in H3. subst. reflexivity.
  - intros H. apply Z.eqb_eq in H. subst. reflexivity.
Qed.

(* ---------------------------------------------------------------- the stored session id *)

Definition agg_sid (v : verifier (F:=F)) : option (sid (F:=F)) :=
  match v_agg v with Some a => Some (a_sid a) | None => None end.

Lemma add_response_sid (a a' : agg (F:=F)) n i s : add_response a n i s = Some a' -> a_sid a' = a_sid a.
Proof.
  unfold add_response. destruct ((i <? 0) || (n <=? i)); [discriminate|].
  destruct (lookup_resp i (a_resps a)); [discriminate|]. intros [= <-]. reflexivity.
Qed.

(* after a deal was processed the verifier keeps the id written in the deal *)
Lemma ped_sid (v v' : verifier (F:=F)) eo r :
  v_agg v = None -> process_encrypted_deal O true v eo = Ok (v', r) ->
  exists e p, eo = Some e /\ e_plain e = Some p /\ agg_sid v' = Some (p_sid p) /\
              v_members v' = v_members v /\ v_dealer v' = v_dealer v.
Proof.
  intros Hnone H. pose proof H as H0.
  destruct (ped_ok O v eo v' r H) as [e [p [x [-> [Hop [Hs _]]]]]].
  assert (Hpl : e_plain e = Some p) by (destruct Hop as [_ [_ [_ [_ [_ [_ [_ [_ [_ Hp]]]]]]]]]; exact Hp).
  exists e, p. split; [reflexivity|]. split; [exact Hpl|].
  unfold process_encrypted_deal in H0.
  destruct (decrypt_deal true v (Some e)) as [p'| |] eqn:Ed; cbn [res_bind] in H0; try discriminate.
  destruct (decrypt_ok v (Some e) p' Ed) as [e' [[= <-] Hop']].
  assert (p' = p).
  { destruct Hop' as [_ [_ [_ [_ [_ [_ [_ [_ [_ Hp']]]]]]]]]. congruence. }
  subst p'. rewrite Hs in H0.
  rewrite Z.eqb_refl in H0. cbn [negb] in H0. rewrite Hnone in H0. cbn [a_deal a_t a_resps a_bad] in H0.
  destruct (add_response _ _ _ _) as [a2|] eqn:Ea; [|discriminate].
  injection H0 as <- _. unfold agg_sid. cbn [v_agg v_members v_dealer].
  apply add_response_sid in Ea. cbn [a_sid] in Ea. rewrite Ea. repeat split; reflexivity.
Qed.

Lemma process_response_sid (v v' : verifier (F:=F)) ro :
  process_response O true v ro = Ok v' -> agg_sid v' = agg_sid v /\ v_members v' = v_members v.
Proof.
  unfold process_response, agg_sid. destruct (v_agg v) as [a|]; [|discriminate].
  destruct ro as [r|]; [|discriminate].
  destruct (negb _); [discriminate|]. destruct (nth_key _ _); [|discriminate].
  destruct (negb _); [discriminate|]. destruct (add_response _ _ _ _) as [a'|] eqn:Ea; [|discriminate].
  intros [= <-]. cbn. apply add_response_sid in Ea. rewrite Ea. split; reflexivity.
Qed.

(* what accepting a response means *)
Lemma process_response_ok (v v' : verifier (F:=F)) r :
  process_response O true v (Some r) = Ok v' ->
  exists s k, agg_sid v = Some s /\ r_sid r = s /\
              nth_key (v_members v) (r_index r) = Some k /\ r_sig_key r = k.
Proof.
  unfold process_response, agg_sid. destruct (v_agg v) as [a|]; [|discriminate].
  destruct (sid_eqb O (r_sid r) (a_sid a)) eqn:Es; cbn [negb]; [|discriminate].
  destruct (nth_key (v_members v) (r_index r)) as [k|]; [|discriminate].
  destruct (r_sig_key r =? k) eqn:Ek; cbn [negb]; [|discriminate].
  intros _. exists (a_sid a), k. apply sid_eqb_eq in Es. apply Z.eqb_eq in Ek. repeat split; assumption || reflexivity.
Qed.

(* ---------------------------------------------------------------- agreement on one dealer *)

(* Member i approved the deal it got from a dealer and later accepted, as member k's response,
   the response member k itself produced for the deal IT got from the same dealer (this is what
   unforgeability of k's signature gives).  Then i and k hold the same commitments and threshold
   for this dealer. *)
Theorem same_dealer_same_commitments
  (vi vi1 vi2 vi3 vk vk1 : verifier (F:=F)) (ei ek : edeal (F:=F)) (pi pk : plain (F:=F)) ri rk :
  v_agg vi = None -> v_agg vk = None ->
  v_dealer vi = v_dealer vk -> v_members vi = v_members vk ->
  process_encrypted_deal O true vi (Some ei) = Ok (vi1, ri) -> e_plain ei = Some pi ->
  r_status ri = Approval ->
  process_encrypted_deal O true vk (Some ek) = Ok (vk1, rk) -> e_plain ek = Some pk ->
  agg_sid vi2 = agg_sid vi1 -> v_members vi2 = v_members vi1 ->   (* any number of other responses in between *)
  process_response O true vi2 (Some rk) = Ok vi3 ->
  p_commits pi = p_commits pk /\ p_t pi = p_t pk.
Proof.
  intros Hni Hnk Hd Hm Hpi Hei Happ Hpk Hek Hsid Hmem Hacc.
  (* i's side: approval means the written id is the computed one, and that is what i keeps *)
  destruct (ped_ok O vi (Some ei) vi1 ri Hpi) as [ei' [pi' [xi [[= <-] [Hopi [Hsi [Hsti _]]]]]]].
  assert (pi' = pi) by (destruct Hopi as [_ [_ [_ [_ [_ [_ [_ [_ [_ Hp]]]]]]]]]; congruence). subst pi'.
  rewrite Happ in Hsti.
  destruct (deal_ok O (nmembers vi) pi (v_index vi) xi) ; cbn [andb] in Hsti; [|discriminate].
  destruct (sid_eqb O (Sid (v_dealer vi) (v_members vi) (p_commits pi) (p_t pi)) (p_sid pi)) eqn:Esi; [|discriminate].
  apply sid_eqb_eq in Esi.
  destruct (ped_sid vi vi1 (Some ei) ri Hni Hpi) as [e0 [p0 [[= <-] [Hp0 [Hs1 _]]]]].
  assert (p0 = pi) by congruence. subst p0.
  (* k's side: its response carries the id computed from what k saw *)
  destruct (ped_ok O vk (Some ek) vk1 rk Hpk) as [ek' [pk' [xk [[= <-] [Hopk [Hsk [_ _]]]]]]].
  assert (pk' = pk) by (destruct Hopk as [_ [_ [_ [_ [_ [_ [_ [_ [_ Hp]]]]]]]]]; congruence). subst pk'.
  assert (Hrk : r_sid rk = Sid (v_dealer vk) (v_members vk) (p_commits pk) (p_t pk)).
  { unfold process_encrypted_deal in Hpk.
    destruct (decrypt_deal true vk (Some ek)) as [p'| |] eqn:Ed; cbn [res_bind] in Hpk; try discriminate.
    destruct (decrypt_ok vk (Some ek) p' Ed) as [e' [[= <-] Hop']].
    assert (p' = pk) by (destruct Hop' as [_ [_ [_ [_ [_ [_ [_ [_ [_ Hp']]]]]]]]]; congruence). subst p'.
    rewrite Hsk, Z.eqb_refl in Hpk. cbn [negb] in Hpk. rewrite Hnk in Hpk. cbn [a_deal] in Hpk.
    destruct (add_response _ _ _ _); [|discriminate]. injection Hpk as _ <-. reflexivity. }
  (* acceptance: the response's id equals the id i keeps *)
  destruct (process_response_ok vi2 vi3 rk Hacc) as [s [kk [Hs2 [Hrs _]]]].
  rewrite Hsid, Hs1 in Hs2. injection Hs2 as <-.
  rewrite Hrk, <- Esi in Hrs. injection Hrs as _ _ Hc Ht. split; congruence.
Qed.

(* ---------------------------------------------------------------- shares lie on the summed polynomial *)

Lemma check_add (P Q R : list F) (i : Z) (x y : F) :
  pub_add M P Q = Some R ->
  check O M (f1 O) P i x = true -> check O M (f1 O) Q i y = true ->
  check O M (f1 O) R i (fadd O x y) = true.
Proof.
  intros HR HP HQ. unfold check in *.
  apply (G_eqb O M (self_glaws O L)) in HP, HQ. apply (G_eqb O M (self_glaws O L)).
  rewrite (pub_add_eval O M (self_glaws O L) P Q R i HR), HP, HQ.
  cbn [self_gops gadd gscale].
  pose proof (F_th O L) as Fth. destruct Fth as [Rth _ _ _]. destruct Rth.
  rewrite Rdistr_l. reflexivity.
Qed.

(* DistKeyShare's two folds over the certified deals *)
Definition sum_shares (deals : list (plain (F:=F))) : F :=
  fold_left (fun acc p => match p_sec p with Some (_, x) => fadd O acc x | None => acc end) deals (f0 O).

Definition sum_commits (deals : list (plain (F:=F))) : option (list F) :=
  match deals with
  | [] => None
  | p0 :: rest => fold_left (fun acc p => match acc with Some c => pub_add M c (p_commits p) | None => None end)
                            rest (Some (p_commits p0))
  end.

Lemma fold_shares_acc deals a :
  fold_left (fun acc p => match p_sec p with Some (_, x) => fadd O acc x | None => acc end) deals a
  = fadd O a (sum_shares deals).
Proof.
  pose proof (F_th O L) as Fth. destruct Fth as [Rth _ _ _]. destruct Rth.
  unfold sum_shares. revert a. induction deals as [|p deals IH]; intros a; cbn [fold_left].
  - rewrite Radd_comm, Radd_0_l. reflexivity.
  - rewrite IH. rewrite (IH (match p_sec p with Some (_, x) => fadd O (f0 O) x | None => f0 O end)).
    destruct (p_sec p) as [[j x]|].
    + rewrite Radd_0_l, Radd_assoc. reflexivity.
    + rewrite Radd_0_l. reflexivity.
Qed.

Theorem summed_share_on_summed_polynomial (i : Z) : forall (deals : list (plain (F:=F))) (C : list F),
  deals <> [] ->
  (forall p, In p deals -> exists x, p_sec p = Some (i, x) /\ check O M (f1 O) (p_commits p) i x = true) ->
  sum_commits deals = Some C ->
  check O M (f1 O) C i (sum_shares deals) = true.
Proof.
  pose proof (F_th O L) as Fth. destruct Fth as [Rth _ _ _]. destruct Rth.
  intros deals C Hne Hall. destruct deals as [|p0 rest]; [congruence|]. clear Hne.
  unfold sum_commits, sum_shares. cbn [fold_left].
  destruct (Hall p0 (or_introl eq_refl)) as [x0 [Hs0 Hc0]]. rewrite Hs0.
  assert (Hgen : forall rs acc a, check O M (f1 O) acc i a = true ->
            (forall p, In p rs -> exists x, p_sec p = Some (i, x) /\ check O M (f1 O) (p_commits p) i x = true) ->
            fold_left (fun acc p => match acc with Some c => pub_add M c (p_commits p) | None => None end) rs (Some acc) = Some C ->
            check O M (f1 O) C i (fold_left (fun acc p => match p_sec p with Some (_, x) => fadd O acc x | None => acc end) rs a) = true).
  { clear Hall Hs0 Hc0. induction rs as [|p rs IH]; intros acc a Hc Hall Hf; cbn [fold_left] in *.
    - injection Hf as <-. exact Hc.
    - destruct (Hall p (or_introl eq_refl)) as [x [Hs Hcx]]. rewrite Hs.
      destruct (pub_add M acc (p_commits p)) as [acc'|] eqn:Ea.
      + apply (IH acc'); [|intros q Hq; apply Hall; right; exact Hq|exact Hf].
        apply (check_add acc (p_commits p) acc' i a x Ea Hc Hcx).
      + exfalso. clear -Hf. induction rs as [|q rs IHr]; cbn in Hf; [discriminate|apply IHr; exact Hf]. }
  intros Hf. apply (Hgen rest (p_commits p0) (fadd O (f0 O) x0)); [|intros q Hq; apply Hall; right; exact Hq|exact Hf].
  rewrite Radd_0_l. exact Hc0.
Qed.

(* ---------------------------------------------------------------- DistKeyShare *)

Lemma dks_spec (g : gen (F:=F)) C x :
  dist_key_share O g = Ok (C, x) ->
  certified g = true /\ certified_deals g <> [] /\
  sum_commits (certified_deals g) = Some C /\ x = sum_shares (certified_deals g).
Proof.
  unfold dist_key_share. fold (certified_deals g).
  destruct (certified g); cbn [negb]; [|discriminate].
  destruct (certified_deals g) as [|p0 rest] eqn:Ed; [discriminate|].
  unfold sum_commits, sum_shares.
  destruct (fold_left _ rest (Some (p_commits p0))) as [c|] eqn:Ef; [|discriminate].
  intros [= <- <-]. split; [reflexivity|]. split; [congruence|]. split; reflexivity.
Qed.

(* a finished member's share lies on its public polynomial, provided it approved (at its own
   index i) every deal it sums *)
Theorem finished_share_on_polynomial (g : gen (F:=F)) (i : Z) C x :
  dist_key_share O g = Ok (C, x) ->
  (forall p, In p (certified_deals g) ->
     exists y, p_sec p = Some (i, y) /\ check O M (f1 O) (p_commits p) i y = true) ->
  check O M (f1 O) C i x = true.
Proof.
  intros H Hall. destruct (dks_spec g C x H) as [_ [Hne [Hc ->]]].
  apply (summed_share_on_summed_polynomial i (certified_deals g) C Hne Hall Hc).
Qed.

(* two members that sum deals with pairwise equal commitments end with the same public polynomial *)
Lemma sum_commits_ext (d1 d2 : list (plain (F:=F))) :
  map (fun p => p_commits p) d1 = map (fun p => p_commits p) d2 -> sum_commits d1 = sum_commits d2.
Proof.
  destruct d1 as [|p1 r1], d2 as [|p2 r2]; cbn [map]; try discriminate; [reflexivity|].
  intros [= E0 Er]. unfold sum_commits. rewrite E0. generalize (Some (p_commits p2)) as acc.
  revert r2 Er; induction r1 as [|q1 r1 IH]; intros r2 Er acc; destruct r2 as [|q2 r2]; cbn [map] in Er; try discriminate; [reflexivity|].
  injection Er as Eq Er. cbn [fold_left]. rewrite Eq. apply IH. exact Er.
Qed.

Theorem same_commitments_same_key (g1 g2 : gen (F:=F)) C1 x1 C2 x2 :
  dist_key_share O g1 = Ok (C1, x1) -> dist_key_share O g2 = Ok (C2, x2) ->
  map (fun p => p_commits p) (certified_deals g1) = map (fun p => p_commits p) (certified_deals g2) ->
  C1 = C2.
Proof.
  intros H1 H2 E. destruct (dks_spec g1 C1 x1 H1) as [_ [_ [Hc1 _]]]. destruct (dks_spec g2 C2 x2 H2) as [_ [_ [Hc2 _]]].
  rewrite (sum_commits_ext _ _ E) in Hc1. congruence.
Qed.

(* ---------------------------------------------------------------- honest dealers: the group polynomial is the sum *)

Definition honest_deal (f : list F) (i : Z) (p : plain (F:=F)) : Prop :=
  p_commits p = commit M (f1 O) f /\ p_sec p = Some (i, eval O f i).

Fixpoint sum_polys (fs : list (list F)) : option (list F) :=
  match fs with
  | [] => None
  | [f] => Some f
  | f :: rest => match sum_polys rest with Some s => pri_add O f s | None => None end
  end.

Lemma pub_add_comm (P Q : list F) : pub_add M P Q = pub_add M Q P.
Proof.
  pose proof (F_th O L) as Fth. destruct Fth as [Rth _ _ _]. destruct Rth.
  unfold pub_add. rewrite (Nat.eqb_sym (length Q)). destruct (Nat.eqb (length P) (length Q)) eqn:E; [|reflexivity].
  apply Nat.eqb_eq in E. f_equal. revert Q E; induction P as [|a P IH]; intros Q E; destruct Q as [|b Q]; cbn in E; try lia; [reflexivity|].
  cbn [zip_with self_gops gadd]. rewrite Radd_comm. f_equal. apply IH. lia.
Qed.

Definition sum_polys_l (fs : list (list F)) : option (list F) :=
  match fs with
  | [] => None
  | f0 :: rest => fold_left (fun acc f => match acc with Some s => pri_add O s f | None => None end) rest (Some f0)
  end.

(* all dealers honest: what a finished member holds is the commitment of the SUM of the dealers'
   polynomials and the value of that sum at the member's own index *)
Theorem honest_sum (i : Z) (deals : list (plain (F:=F))) (fs : list (list F)) (C : list F) :
  Forall2 (fun p f => honest_deal f i p) deals fs ->
  sum_commits deals = Some C ->
  exists S, sum_polys_l fs = Some S /\ C = commit M (f1 O) S /\ sum_shares deals = eval O S i.
Proof.
  pose proof (F_th O L) as Fth. destruct Fth as [Rth _ _ _]. destruct Rth.
  intros HF. destruct HF as [|p0 f0' deals' fs' [Hc0 Hs0] HF]; [discriminate|].
  unfold sum_commits, sum_polys_l, sum_shares. cbn [fold_left]. rewrite Hs0, Hc0.
  assert (Hgen : forall ds gs, Forall2 (fun p f => honest_deal f i p) ds gs ->
            forall accf a, a = eval O accf i ->
            fold_left (fun acc p => match acc with Some c => pub_add M c (p_commits p) | None => None end) ds (Some (commit M (f1 O) accf)) = Some C ->
            exists S, fold_left (fun acc f => match acc with Some s => pri_add O s f | None => None end) gs (Some accf) = Some S /\
                      C = commit M (f1 O) S /\
                      fold_left (fun acc p => match p_sec p with Some (_, x) => fadd O acc x | None => acc end) ds a = eval O S i).
  { clear HF Hc0 Hs0. induction 1 as [|p f ds gs [Hc Hs] _ IH]; intros accf a Ha Hf; cbn [fold_left] in *.
    - injection Hf as <-. exists accf. split; [reflexivity|]. split; [reflexivity|exact Ha].
    - rewrite Hc in Hf. rewrite Hs.
      destruct (pub_add M (commit M (f1 O) accf) (commit M (f1 O) f)) as [c'|] eqn:Ea.
      + assert (Hlen : length accf = length f).
        { unfold pub_add, commit in Ea. rewrite !map_length in Ea.
          destruct (Nat.eqb (length accf) (length f)) eqn:E; [apply Nat.eqb_eq; exact E|discriminate]. }
        destruct (proj2 (pri_add_defined O accf f) Hlen) as [r Hr].
        rewrite (commit_add_hom O M (self_glaws O L) (f1 O) accf f r Hr) in Ea. injection Ea as <-.
        rewrite Hr. apply IH; [|exact Hf].
        rewrite (pri_add_eval O L accf f r i Hr), Ha. reflexivity.
      + exfalso. clear -Hf. induction ds as [|q ds IHd]; cbn in Hf; [discriminate|apply IHd; exact Hf]. }
  intros Hf. apply (Hgen deals' fs' HF f0' (fadd O (f0 O) (eval O f0' i))); [|exact Hf].
  rewrite Radd_0_l. reflexivity.
Qed.

(* ---------------------------------------------------------------- the session as pdkg drives it *)

Lemma gapd_approvals : forall (deals : list (Z * option (edeal (F:=F)))) (g g' : gen (F:=F)) acc out,
  get_and_process_deals O true g deals acc = Ok (g', out) ->
  Forall (fun dr => r_status (snd dr) = Approval) acc ->
  Forall (fun dr => r_status (snd dr) = Approval) out.
Proof.
  induction deals as [|[dealer eo] rest IH]; intros g g' acc out H Hacc; cbn [get_and_process_deals] in H.
  - injection H as _ <-. exact Hacc.
  - destruct (process_deal O true g dealer eo) as [g1 [r| |]] eqn:Ep; try discriminate.
    + destruct (r_status r) eqn:Est; [|discriminate].
      apply (IH g1 g' _ out H). apply Forall_app. split; [exact Hacc|]. constructor; [exact Est|constructor].
    + apply (IH g1 g' acc out H Hacc).
Qed.

(* a member that finishes sent nothing but approvals: a deal it did not approve ends its session *)
Theorem no_approval_no_finish (g : gen (F:=F)) deals resps C x :
  session O true g deals resps = Ok (C, x) ->
  exists g' out, get_and_process_deals O true g deals [] = Ok (g', out) /\
                 Forall (fun dr => r_status (snd dr) = Approval) out.
Proof.
  unfold session. destruct (get_and_process_deals O true g deals []) as [[g' out]| |] eqn:E; cbn [res_bind]; try discriminate.
  intros _. exists g', out. split; [reflexivity|]. apply (gapd_approvals deals g g' [] out E). constructor.
Qed.

End DkgProofs.
