(* ZqField.v -- for a prime q the executable instance Z/qZ satisfies the field laws, the
   discrete-log module satisfies the module laws, and the abscissae 1+i (0 <= i < q-1) are
   distinct and non-zero.  Primality is a hypothesis (DESIGN.md, trusted base). *)
From Coq Require Import ZArith Znumtheory Lia List Bool Field Eqdep_dec.
From DosVerif Require Import Base.Val Base.Field.
Import ListNotations.
Local Open Scope Z_scope.

Section ZqField.
Variable q : Z.
Hypothesis q_prime : prime q.

Lemma q_gt_1 : 1 < q. Proof. destruct q_prime; assumption. Qed.
Lemma q_pos : 0 < q. Proof. pose proof q_gt_1; lia. Qed.

Lemma zq_eq (a b : zq q) : zv a = zv b -> a = b.
Proof.
  destruct a as [x px], b as [y py]; cbn. intros ->. f_equal.
  apply UIP_dec. apply bool_dec.
Qed.

Lemma zv_range (a : zq q) : 0 <= zv a < q.
Proof.
  destruct a as [x px]; cbn. apply Z.eqb_eq in px. rewrite <- px. apply Z.mod_pos_bound. apply q_pos.
Qed.

Lemma zv_mod (a : zq q) : zv a mod q = zv a.
Proof. destruct a as [x px]; cbn. apply Z.eqb_eq in px. exact px. Qed.

(* ---------------------------------------------------------------- extended Euclid *)

Definition eqm_a (a x s : Z) : Prop := (x - s * a) mod q = 0.

Lemma egcd_spec a : forall fuel r0 r1 s0 s1 g s,
  0 <= r0 -> 0 <= r1 ->
  eqm_a a r0 s0 -> eqm_a a r1 s1 ->
  egcd fuel r0 r1 s0 s1 = Some (g, s) ->
  eqm_a a g s /\ g = Z.gcd r0 r1.
Proof.
  induction fuel as [|f IH]; intros r0 r1 s0 s1 g s H0 H1 E0 E1; cbn [egcd].
  - destruct (r1 =? 0) eqn:Z1; [|discriminate]. intros [= <- <-]. apply Z.eqb_eq in Z1. subst r1.
    split; [exact E0|]. rewrite Z.gcd_0_r, Z.abs_eq; lia.
  - destruct (r1 =? 0) eqn:Z1.
    + intros [= <- <-]. apply Z.eqb_eq in Z1. subst r1.
      split; [exact E0|]. rewrite Z.gcd_0_r, Z.abs_eq; lia.
    + apply Z.eqb_neq in Z1. intros H.
      apply IH in H.
      * destruct H as [Hs Hg]. split; [exact Hs|]. rewrite Hg.
        rewrite Z.gcd_comm, Z.gcd_mod by exact Z1. apply Z.gcd_comm.
      * lia.
      * apply Z.mod_pos_bound. lia.
      * exact E1.
      * unfold eqm_a in *.
        assert (Hm : r0 mod r1 = r0 - (r0 / r1) * r1).
        { pose proof (Z.div_mod r0 r1 Z1). lia. }
        rewrite Hm.
        replace (r0 - r0 / r1 * r1 - (s0 - r0 / r1 * s1) * a)
          with ((r0 - s0 * a) - (r0 / r1) * (r1 - s1 * a)) by ring.
        rewrite Zminus_mod, E0.
        rewrite Zmult_mod, E1, Z.mul_0_r. rewrite Zmod_0_l. reflexivity.
Qed.

Lemma egcd_terminates : forall fuel r0 r1 s0 s1,
  0 <= r1 < r0 -> r0 * r1 < 2 ^ Z.of_nat fuel ->
  exists res, egcd fuel r0 r1 s0 s1 = Some res.
Proof.
  induction fuel as [|f IH]; intros r0 r1 s0 s1 Hr Hp; cbn [egcd].
  - destruct (r1 =? 0) eqn:Z1; [eexists; reflexivity|]. apply Z.eqb_neq in Z1.
    cbn in Hp. nia.
  - destruct (r1 =? 0) eqn:Z1; [eexists; reflexivity|]. apply Z.eqb_neq in Z1.
    apply IH.
    + apply Z.mod_pos_bound. lia.
    + rewrite Nat2Z.inj_succ, Z.pow_succ_r in Hp by lia.
      pose proof (Z.div_mod r0 r1 Z1) as Hd.
      pose proof (Z.mod_pos_bound r0 r1 ltac:(lia)) as Hm.
      assert (1 <= r0 / r1) by (apply Z.div_le_lower_bound; lia).
      nia.
Qed.

Lemma fuel_enough (x : Z) : 0 <= x < q -> q * x < 2 ^ Z.of_nat (egcd_fuel q).
Proof.
  intros Hx. unfold egcd_fuel.
  pose proof q_gt_1 as Hq.
  pose proof (Z.log2_up_spec q Hq) as [_ Hl].
  pose proof (Z.log2_up_nonneg q) as Hn.
  rewrite !Nat2Z.inj_succ, Z2Nat.id by lia.
  rewrite !Z.pow_succ_r by lia.
  replace (2 * Z.log2_up q) with (Z.log2_up q + Z.log2_up q) by ring.
  rewrite Z.pow_add_r by lia.
  assert (0 < 2 ^ Z.log2_up q) by (apply Z.pow_pos_nonneg; lia).
  nia.
Qed.

Lemma modinv_correct (x : Z) : 0 < x < q -> 0 <= modinv q x < q /\ (modinv q x * x) mod q = 1.
Proof.
  intros Hx. unfold modinv, modinv_opt.
  assert (Hxm : x mod q = x) by (apply Z.mod_small; lia). rewrite Hxm.
  destruct (egcd_terminates (egcd_fuel q) q x 0 1) as [[g s] E]; [lia|apply fuel_enough; lia|].
  rewrite E.
  destruct (egcd_spec x (egcd_fuel q) q x 0 1 g s) as [Hs Hg]; try lia.
  - unfold eqm_a. replace (q - 0 * x) with (1 * q) by ring. apply Z_mod_mult.
  - unfold eqm_a. replace (x - 1 * x) with 0 by ring. reflexivity.
  - exact E.
  - assert (Hg1 : g = 1).
    { rewrite Hg. apply Zgcd_1_rel_prime. apply prime_rel_prime; [exact q_prime|].
      intros Hd. apply Zdivide_le in Hd; lia. }
    rewrite Hg1 in *. clear Hg. cbn [Z.eqb Pos.eqb]. split; [apply Z.mod_pos_bound; apply q_pos|].
    unfold eqm_a in Hs.
    rewrite Zmult_mod_idemp_l.
    assert (H1 : 1 mod q = 1) by (apply Z.mod_small; pose proof q_gt_1; lia).
    replace (s * x) with (1 - (1 - s * x)) by ring.
    rewrite Zminus_mod, Hs, Z.sub_0_r, Zmod_mod. exact H1.
Qed.

(* ---------------------------------------------------------------- field laws *)

Ltac zq_norm :=
  apply zq_eq; cbn [zv zq_of zq_ops f0 f1 fadd fmul fsub fopp finv];
  repeat (rewrite ?Zplus_mod_idemp_l, ?Zplus_mod_idemp_r, ?Zmult_mod_idemp_l, ?Zmult_mod_idemp_r,
                  ?Zminus_mod_idemp_l, ?Zminus_mod_idemp_r).

Lemma opp_mod x : (- (x mod q)) mod q = (- x) mod q.
Proof. rewrite <- !Z.sub_0_l. apply Zminus_mod_idemp_r. Qed.

Lemma zq_ring : ring_theory (f0 (zq_ops q)) (f1 (zq_ops q)) (fadd (zq_ops q)) (fmul (zq_ops q))
                            (fsub (zq_ops q)) (fopp (zq_ops q)) eq.
Proof.
  constructor; intros; zq_norm.
  - rewrite Z.add_0_l. apply zv_mod.
  - f_equal; ring.
  - f_equal; ring.
  - rewrite Z.mul_1_l. apply zv_mod.
  - f_equal; ring.
  - f_equal; ring.
  - f_equal; ring.
  - f_equal; ring.
  - f_equal; ring.
Qed.

Lemma zq_field : field_theory (f0 (zq_ops q)) (f1 (zq_ops q)) (fadd (zq_ops q)) (fmul (zq_ops q))
                              (fsub (zq_ops q)) (fopp (zq_ops q)) (fdiv (zq_ops q))
                              (finv (zq_ops q)) eq.
Proof.
  constructor.
  - exact zq_ring.
  - intros E. apply (f_equal zv) in E. cbn [zv zq_of zq_ops f0 f1] in E.
    rewrite Zmod_0_l, Z.mod_small in E by (pose proof q_gt_1; lia). discriminate.
  - intros p r. reflexivity.
  - intros p Hp. zq_norm.
    assert (Hz : 0 < zv p < q).
    { pose proof (zv_range p). assert (zv p <> 0); [|lia].
      intros E. apply Hp. apply zq_eq. cbn [zv zq_of zq_ops f0]. rewrite E. rewrite Zmod_0_l. reflexivity. }
    destruct (modinv_correct (zv p) Hz) as [_ Hm]. rewrite Hm.
    symmetry. apply Z.mod_small. pose proof q_gt_1; lia.
Qed.

Lemma zq_eqb (a b : zq q) : feqb (zq_ops q) a b = true <-> a = b.
Proof. cbn. rewrite Z.eqb_eq. split; [apply zq_eq|intros ->; reflexivity]. Qed.

Theorem zq_flaws : Flaws (zq_ops q).
Proof. constructor; [exact zq_field|exact zq_eqb]. Qed.

Theorem zq_nodes : NodeLaws (zq_ops q) (q - 1).
Proof.
  constructor.
  - intros i j Hi Hj E. apply (f_equal zv) in E. cbn [zv zq_of zq_ops fofZ] in E.
    rewrite !Z.mod_small in E by lia. lia.
  - intros i Hi E. apply (f_equal zv) in E. cbn [zv zq_of zq_ops f0 fofZ] in E.
    rewrite Z.mod_small, Zmod_0_l in E by lia. lia.
Qed.

Theorem exp_glaws : Glaws (zq_ops q) (exp_gops q).
Proof.
  constructor; intros; try (apply zq_eq; cbn [zv zq_of zq_ops exp_gops g0 gadd gneg gscale fadd fmul f1];
    repeat (rewrite ?Zplus_mod_idemp_l, ?Zplus_mod_idemp_r, ?Zmult_mod_idemp_l, ?Zmult_mod_idemp_r)).
  - f_equal; ring.
  - f_equal; ring.
  - rewrite Z.add_0_l. apply zv_mod.
  - f_equal; ring.
  - f_equal; ring.
  - f_equal; ring.
  - f_equal; ring.
  - rewrite Z.mul_1_l. apply zv_mod.
  - cbn. rewrite Z.eqb_eq. split; [apply zq_eq|intros ->; reflexivity].
Qed.

Theorem exp_gfree : Gfree (zq_ops q) (exp_gops q) (zq_of q 1).
Proof.
  constructor. intros k l E. apply zq_eq. apply (f_equal zv) in E. cbn [zv zq_of exp_gops gscale] in E.
  rewrite !Zmult_mod_idemp_r, !Z.mul_1_r, !zv_mod in E. exact E.
Qed.

End ZqField.
