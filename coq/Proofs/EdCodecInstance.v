(* EdCodecInstance.v -- C20, the instance Z/(2^255-19): what FromBytes accepts, ToBytes writes back
   unchanged, provided the input is canonical (32 bytes, ordinate below p, and not "x = 0 announced
   as odd").  So on canonical input the decoder is a partial inverse of the encoder, and two different
   canonical strings never decode to the same point. *)
From Coq Require Import ZArith NArith List Bool Lia.
From DosVerif Require Import Base.Val Base.Field Gen.EdConsts Models.Ed Models.EdCodec Proofs.EdCodecProofs.
Import ListNotations.
Open Scope Z_scope.

Lemma fe_eq (a b : Fe) : zv a = zv b -> a = b.
Proof.
  destruct a as [a Ha], b as [b Hb]. cbn. intros ->. f_equal.
  apply Eqdep_dec.UIP_dec. apply Bool.bool_dec.
Qed.

Lemma ed_p_val : ed_p = 2 ^ 255 - 19. Proof. reflexivity. Qed.

Lemma fe_range (a : Fe) : 0 <= zv a < ed_p.
Proof.
  destruct a as [a Ha]. cbn. apply Z.eqb_eq in Ha. rewrite <- Ha. apply Z.mod_pos_bound. reflexivity.
Qed.

Lemma fe_of_zv (a : Fe) : fe_of (zv a) = a.
Proof. apply fe_eq. cbn. destruct a as [a Ha]. cbn. apply Z.eqb_eq. exact Ha. Qed.

Lemma fe_inv_one : finv fe_ops (f1 fe_ops) = f1 fe_ops.
Proof. apply fe_eq. vm_compute. reflexivity. Qed.

Lemma fe_mul_one (a : Fe) : fmul fe_ops a (f1 fe_ops) = a.
Proof.
  apply fe_eq. cbn. change (zv (zq_of ed_p 1)) with 1. rewrite Z.mul_1_r.
  pose proof (fe_range a). apply Z.mod_small. lia.
Qed.

(* ---------------------------------------------------------------- bytes *)

Definition bytes_ok (s : list N) : Prop := Forall (fun b => (b < 256)%N) s.

Lemma le_val_range s : bytes_ok s -> 0 <= le_val s < 256 ^ Z.of_nat (length s).
Proof.
  induction s as [|b s IH]; intros H; [cbn; lia|].
  inversion H as [|? ? Hb Hs]; subst. specialize (IH Hs). cbn [le_val fold_right length].
  fold (le_val s). rewrite Nat2Z.inj_succ, Z.pow_succ_r by lia. lia.
Qed.

Lemma le_bytes_val : forall s, bytes_ok s -> le_bytes (length s) (le_val s) = s.
Proof.
  induction s as [|b s IH]; intros H; [reflexivity|].
  inversion H as [|? ? Hb Hs]; subst. cbn [length le_bytes le_val fold_right]. fold (le_val s).
  assert (Hb' : 0 <= Z.of_N b < 256) by lia.
  assert (E1 : (Z.of_N b + 256 * le_val s) mod 256 = Z.of_N b).
  { rewrite (Z.mul_comm 256), Z_mod_plus_full. apply Z.mod_small. lia. }
  assert (E2 : (Z.of_N b + 256 * le_val s) / 256 = le_val s).
  { rewrite (Z.mul_comm 256), Z.div_add by lia. rewrite Z.div_small by lia. lia. }
  rewrite E1, E2.
  rewrite N2Z.id, IH by exact Hs. reflexivity.
Qed.

(* ---------------------------------------------------------------- parity *)

Lemma parity_neg (x : Fe) : zv x <> 0 -> fe_parity (fopp fe_ops x) = negb (fe_parity x).
Proof.
  intros H. unfold fe_parity. cbn. pose proof (fe_range x) as R.
  replace ((- zv x) mod ed_p) with (ed_p - zv x).
  - rewrite Z.odd_sub. change (Z.odd ed_p) with true. destruct (Z.odd (zv x)); reflexivity.
  - apply Zmod_unique with (q := -1); lia.
Qed.

Lemma neg_zero (x : Fe) : zv x = 0 -> zv (fopp fe_ops x) = 0.
Proof. intros H. cbn. rewrite H. reflexivity. Qed.

(* ---------------------------------------------------------------- the round trip *)

Theorem ed_decode_then_encode (s : list N) (p : ext (K:=Fe)) :
  ed_decode s = Some p -> bytes_ok s ->
  le_val s mod 2 ^ 255 < ed_p ->                                  (* the ordinate is reduced *)
  (zv (eX p) <> 0 \/ Z.odd (le_val s / 2 ^ 255) = false) ->       (* x = 0 is not announced as odd *)
  ed_encode p = s.
Proof.
  unfold ed_decode. destruct (Nat.eqb (length s) 32) eqn:El; [|discriminate]. cbn [negb].
  apply Nat.eqb_eq in El. intros Hd Hs Hy Hx.
  set (n := le_val s) in *. set (y := fe_of (n mod 2 ^ 255)) in *. set (neg := Z.odd (n / 2 ^ 255)) in *.
  pose proof (le_val_range s Hs) as Rn. rewrite El in Rn. fold n in Rn. change (256 ^ Z.of_nat 32) with (2 ^ 256) in Rn.
  destruct (decode_y_shape fe_ops ed_d ed_sqrtm1 fe_parity ed_exp y neg p Hd) as [x Ep]. clear Hd.
  set (xf := if Bool.eqb (fe_parity x) neg then x else fopp fe_ops x) in *.
  subst p. cbn [eX] in Hx.
  assert (Ax : ax fe_ops (mkext xf y (f1 fe_ops) (fmul fe_ops xf y)) = xf)
    by (unfold ax; cbn [eX eZ]; rewrite fe_inv_one; apply fe_mul_one).
  assert (Ay : ay fe_ops (mkext xf y (f1 fe_ops) (fmul fe_ops xf y)) = y)
    by (unfold ay; cbn [eY eZ]; rewrite fe_inv_one; apply fe_mul_one).
  unfold ed_encode. cbv zeta. rewrite Ax, Ay.
  assert (Yv : zv y = n mod 2 ^ 255).
  { unfold y, fe_of, zq_of. cbn [zv]. apply Z.mod_small. split; [apply Z.mod_pos_bound; reflexivity|exact Hy]. }
  assert (Pf : fe_parity xf = neg).
  { unfold xf in *. destruct (Bool.eqb (fe_parity x) neg) eqn:Ep; [apply Bool.eqb_prop; exact Ep|].
    destruct (Z.eq_dec (zv x) 0) as [Z0|NZ].
    - destruct Hx as [Hx|Hx]; [rewrite (neg_zero x Z0) in Hx; contradiction|].
      unfold fe_parity. rewrite (neg_zero x Z0). cbn [Z.odd]. symmetry. exact Hx.
    - rewrite (parity_neg x NZ). destruct (fe_parity x), neg; cbn in Ep; try discriminate; reflexivity. }
  assert (Px : zv xf mod 2 = if neg then 1 else 0).
  { unfold fe_parity in Pf. rewrite Zmod_odd, Pf. reflexivity. }
  rewrite Yv, Px.
  assert (Dn : n / 2 ^ 255 = 0 \/ n / 2 ^ 255 = 1).
  { assert (0 <= n / 2 ^ 255 < 2) by (split; [apply Z.div_pos; lia|apply Z.div_lt_upper_bound; lia]). lia. }
  replace (n mod 2 ^ 255 + (if neg then 1 else 0) * 2 ^ 255) with n.
  - rewrite <- El. apply le_bytes_val. exact Hs.
  - pose proof (Z.div_mod n (2 ^ 255) ltac:(lia)) as E. unfold neg.
    destruct Dn as [D|D]; rewrite D in E; rewrite D; cbn [Z.odd]; lia.
Qed.
