(* TblsProofs.v -- C02 / C03: threshold recovery over the Tbls model. *)
From Coq Require Import ZArith List Bool Lia Field.
From DosVerif Require Import Base.Val Base.Field Models.Share Models.Tbls
     Proofs.PolyLemmas Proofs.ShareProofs.
Import ListNotations.
Local Open Scope Z_scope.

Section TblsProofs.
Context {F : Type}.
Variable O : Fops F.
Hypothesis L : Flaws O.
Variable nmax : Z.
Hypothesis NL : NodeLaws O nmax.
Variable d0 : bool.
Variable dec : list N -> option F.

Notation M := (self_gops O).
Notation "0" := (f0 O). Infix "*" := (fmul O). Infix "+" := (fadd O).
Add Field Ff4 : (Fth O L).

Lemma self_glaws : Glaws O M.
Proof.
  constructor; cbn [self_gops g0 gadd gneg gscale geqb]; intros; try ring.
  apply (F_eqb O L).
Qed.

Lemma pub_eval_self (p : list F) (i : Z) : pub_eval O M p i = eval O p i.
Proof.
  unfold pub_eval, eval. generalize (node O i) as x; intros x.
  induction p as [|c p IH]; [reflexivity|].
  cbn [ghorner fold_right]. fold (ghorner M p x). rewrite IH.
  change (horner O (c :: p) x) with (horner O p x * x + c).
  cbn [self_gops gadd gscale]. ring.
Qed.

Lemma index_nonneg s i : index s = Some i -> (0 <= i)%Z.
Proof.
  destruct s as [|a [|b s]]; cbn; try discriminate. intros [= <-]. lia.
Qed.

(* ---------------------------------------------------------------- sliceUniqMap *)

Lemma bytes_eqb_iff a b : bytes_eqb a b = true <-> a = b.
Proof. apply list_eqb_iff. intros x y. apply N.eqb_eq. Qed.

Lemma uniq_aux_in seen l s : In s (uniq_aux seen l) <-> In s l /\ ~ In s seen.
Proof.
  revert seen; induction l as [|x l IH]; intros seen; cbn [uniq_aux In]; [tauto|].
  destruct (existsb (bytes_eqb x) seen) eqn:E.
  - apply existsb_exists in E. destruct E as [y [Hy E]]. apply bytes_eqb_iff in E. subst y.
    rewrite IH. split.
    + intros [H Hn]. split; [right; exact H|exact Hn].
    + intros [[Hx|H] Hn]; [subst s; contradiction|split; assumption].
  - assert (Hx : ~ In x seen).
    { intros H. assert (existsb (bytes_eqb x) seen = true); [|congruence].
      apply existsb_exists. exists x. split; [exact H|apply bytes_eqb_iff; reflexivity]. }
    cbn [In]. rewrite IH. cbn [In]. split.
    + intros [Hxs|[H Hn]].
      * subst s. split; [left; reflexivity|exact Hx].
      * split; [right; exact H|]. intros H'. apply Hn. right; exact H'.
    + intros [[Hxs|H] Hn]; [left; exact Hxs|].
      destruct (list_eq_dec N.eq_dec x s) as [Hxs|Hxs]; [left; exact Hxs|].
      right. split; [exact H|]. intros [H'|H']; [contradiction|contradiction].
Qed.

Lemma uniq_in l s : In s (uniq l) <-> In s l.
Proof. unfold uniq. rewrite uniq_aux_in. cbn. tauto. Qed.

(* ---------------------------------------------------------------- the collection loop *)

Variable f : list F.     (* the shared polynomial; the public polynomial is its commitment *)
Variable hm : F.         (* logarithm of H(m) *)
Variable n : Z.

(* entry s is a valid share of member i on this message *)
Definition valid (s : list N) (i : Z) : Prop :=
  index s = Some i /\ (i < n)%Z /\ dec (value s) = Some (hm * eval O f i).

Lemma verify_iff i v :
  bls_verify O dec (pub_eval O M f i) hm v = true <-> dec v = Some (hm * eval O f i).
Proof.
  unfold bls_verify. rewrite pub_eval_self. destruct (dec v) as [s|].
  - rewrite (F_eqb O L). split; [intros ->; reflexivity|intros [= ->]; reflexivity].
  - split; [discriminate|discriminate].
Qed.

Definition good (sigs0 : list (list N)) (acc : list (Z * F)) : Prop :=
  NoDup (map fst acc) /\
  forall e, In e acc -> (0 <= fst e < n)%Z /\ snd e = hm * eval O f (fst e) /\
                        exists s, In s sigs0 /\ valid s (fst e).

Lemma NoDup_app_singleton {A} (l : list A) (a : A) : NoDup l -> ~ In a l -> NoDup (l ++ [a]).
Proof.
  induction l as [|x l IH]; intros Hnd Hn; cbn; [constructor; [intros []|constructor]|].
  inversion Hnd as [|? ? Hx Hnd']; subst. constructor.
  - intros H. apply in_app_iff in H. destruct H as [H|[H|[]]]; [contradiction|]. apply Hn. left; symmetry; exact H.
  - apply IH; [exact Hnd'|]. intros H. apply Hn. right; exact H.
Qed.

Lemma has_index_iff i (acc : list (Z * F)) : has_index i acc = true <-> In i (map fst acc).
Proof.
  unfold has_index. rewrite existsb_exists. split.
  - intros [e [He E]]. apply Z.eqb_eq in E. subst i. apply in_map. exact He.
  - intros H. apply in_map_iff in H. destruct H as [e [<- He]]. exists e. split; [exact He|apply Z.eqb_refl].
Qed.

Lemma collect_good sigs0 t : forall sigs acc,
  incl sigs sigs0 -> good sigs0 acc -> good sigs0 (collect O dec f hm sigs t n acc).
Proof.
  induction sigs as [|s rest IH]; intros acc Hinc Hg; cbn [collect]; [exact Hg|].
  assert (Hrest : incl rest sigs0) by (intros x Hx; apply Hinc; right; exact Hx).
  destruct (index s) as [i|] eqn:Ei; [|apply IH; assumption].
  destruct ((n <=? i) || has_index i acc) eqn:Eskip; [apply IH; assumption|].
  apply orb_false_iff in Eskip. destruct Eskip as [En Eh].
  destruct (bls_verify O dec (pub_eval O M f i) hm (value s)) eqn:Ev; [|apply IH; assumption].
  apply verify_iff in Ev. rewrite Ev.
  assert (Hg' : good sigs0 (acc ++ [(i, hm * eval O f i)])).
  { destruct Hg as [Hnd Hall]. split.
    - rewrite map_app. cbn [map fst]. apply NoDup_app_singleton; [exact Hnd|].
      intros Hin. apply has_index_iff in Hin. congruence.
    - intros e He. apply in_app_iff in He. destruct He as [He|[<-|[]]]; [apply Hall; exact He|].
      cbn [fst snd]. apply Z.leb_gt in En. pose proof (index_nonneg s i Ei).
      split; [lia|]. split; [reflexivity|]. exists s. split; [apply Hinc; left; reflexivity|].
      split; [exact Ei|]. split; [lia|exact Ev]. }
  destruct (t <=? Z.of_nat (length (acc ++ [(i, hm * eval O f i)]))); [exact Hg'|].
  apply IH; assumption.
Qed.

Lemma collect_incl t : forall sigs acc,
  incl acc (collect O dec f hm sigs t n acc).
Proof.
  induction sigs as [|s rest IH]; intros acc; cbn [collect]; [apply incl_refl|].
  destruct (index s) as [i|]; [|apply IH].
  destruct ((n <=? i) || has_index i acc); [apply IH|].
  destruct (bls_verify O dec (pub_eval O M f i) hm (value s)); [|apply IH].
  destruct (dec (value s)) as [v|]; [|apply IH].
  destruct (t <=? Z.of_nat (length (acc ++ [(i, v)]))).
  - apply incl_appl. apply incl_refl.
  - intros x Hx. apply IH. apply in_app_iff. left; exact Hx.
Qed.

(* either the threshold was reached, or every valid entry of the list has its index collected *)
Lemma collect_complete t : forall sigs acc,
  let R := collect O dec f hm sigs t n acc in
  (t <= Z.of_nat (length R))%Z \/
  (forall s i, In s sigs -> valid s i -> In i (map fst R)).
Proof.
  induction sigs as [|s rest IH]; intros acc; cbn [collect].
  - right. intros s i [].
  - assert (Hstep : forall acc',
        incl acc acc' ->
        (valid s (match index s with Some i => i | None => 0%Z end) -> index s <> None ->
           In (match index s with Some i => i | None => 0%Z end) (map fst acc')) ->
        let R := collect O dec f hm rest t n acc' in
        (t <= Z.of_nat (length R))%Z \/
        (forall s0 i, In s0 (s :: rest) -> valid s0 i -> In i (map fst R))).
    { intros acc' Hinc Hs. cbv zeta. destruct (IH acc') as [H|H]; [left; exact H|right].
      intros s0 i [<-|H0] Hv; [|apply (H s0 i H0 Hv)].
      destruct Hv as [Ei Hv]. rewrite Ei in Hs.
      assert (Hin : In i (map fst acc')) by (apply Hs; [split; [exact Ei|exact Hv]|congruence]).
      apply in_map_iff in Hin. destruct Hin as [e [<- He]]. apply in_map.
      apply (collect_incl t rest acc'). exact He. }
    destruct (index s) as [i|] eqn:Ei.
    2:{ apply (Hstep acc); [apply incl_refl|]. intros _ H; congruence. }
    destruct ((n <=? i) || has_index i acc) eqn:Eskip.
    { apply (Hstep acc); [apply incl_refl|]. intros [_ [Hlt _]] _.
      apply orb_true_iff in Eskip. destruct Eskip as [E|E].
      - apply Z.leb_le in E. lia.
      - apply has_index_iff. exact E. }
    destruct (bls_verify O dec (pub_eval O M f i) hm (value s)) eqn:Ev.
    2:{ apply (Hstep acc); [apply incl_refl|]. intros [_ [_ Hd]] _.
        apply verify_iff in Hd. congruence. }
    apply verify_iff in Ev. rewrite Ev.
    destruct (t <=? Z.of_nat (length (acc ++ [(i, hm * eval O f i)]))) eqn:Et.
    { left. apply Z.leb_le in Et. exact Et. }
    apply (Hstep (acc ++ [(i, hm * eval O f i)])).
    + apply incl_appl. apply incl_refl.
    + intros _ _. rewrite map_app. apply in_app_iff. right. left. reflexivity.
Qed.

Lemma kept_to_pshares (acc : list (Z * F)) :
  (forall e, In e acc -> (0 <= fst e < n)%Z) -> kept (to_pshares acc) n None = acc.
Proof.
  induction acc as [|[i v] acc IH]; intros H; [reflexivity|].
  cbn [to_pshares map kept fst snd].
  pose proof (H (i, v) (or_introl eq_refl)) as Hi. cbn [fst] in Hi.
  replace ((0 <=? i) && (i <? n)) with true
    by (symmetry; apply andb_true_iff; split; [apply Z.leb_le|apply Z.ltb_lt]; lia).
  cbn [next_limit]. f_equal. apply IH. intros e He. apply H. right; exact He.
Qed.

(* ---------------------------------------------------------------- C02 *)

Theorem recover_unique (sigs : list (list N)) (t : Z) (idxs : list Z) :
  (n <= nmax)%Z -> (Z.of_nat (length f) <= t)%Z ->
  NoDup idxs -> (t <= Z.of_nat (length idxs))%Z ->
  (forall i, In i idxs -> exists s, In s sigs /\ valid s i) ->
  recover O d0 dec f hm sigs t n = Ok (hd 0 f * hm).
Proof.
  intros Hn Hf Hnd Hlen Hcov. unfold recover.
  set (R := collect O dec f hm (uniq sigs) t n []).
  assert (Hg : good (uniq sigs) R).
  { apply collect_good; [apply incl_refl|]. split; [constructor|intros e []]. }
  assert (HR : (t <= Z.of_nat (length R))%Z).
  { destruct (collect_complete t (uniq sigs) []) as [H|H]; [exact H|]. fold R in H.
    assert (Hincl : incl idxs (map fst R)).
    { intros i Hi. destruct (Hcov i Hi) as [s [Hs Hv]]. apply (H s i); [apply uniq_in; exact Hs|exact Hv]. }
    pose proof (NoDup_incl_length Hnd Hincl) as Hle. rewrite map_length in Hle. lia. }
  destruct Hg as [HndR Hall].
  assert (Hk : kept (to_pshares R) n None = R).
  { apply kept_to_pshares. intros e He. apply (Hall e He). }
  rewrite (recover_commit_ok O M L self_glaws nmax NL d0 f hm (to_pshares R) t n Hn); rewrite ?Hk.
  - reflexivity.
  - exact HR.
  - lia.
  - exact HndR.
  - intros iv Hiv. destruct (Hall iv Hiv) as [_ [E _]]. rewrite E. cbn [self_gops gscale]. ring.
Qed.

(* ---------------------------------------------------------------- C03 *)

Theorem share_verify_exact (s : list N) :
  tbls_verify O dec f hm s = Ok tt <->
  exists i, index s = Some i /\ dec (value s) = Some (hm * eval O f i).
Proof.
  unfold tbls_verify. destruct (index s) as [i|].
  - destruct (bls_verify O dec (pub_eval O M f i) hm (value s)) eqn:E.
    + apply verify_iff in E. split; [intros _; exists i; tauto|reflexivity].
    + split; [discriminate|]. intros [j [[= <-] Hd]]. apply verify_iff in Hd. congruence.
  - split; [discriminate|]. intros [i [H _]]. discriminate.
Qed.

Theorem below_threshold (sigs : list (list N)) (t : Z) :
  (forall idxs, NoDup idxs -> (forall i, In i idxs -> exists s, In s sigs /\ valid s i) ->
                (Z.of_nat (length idxs) < t)%Z) ->
  recover O d0 dec f hm sigs t n = Err.
Proof.
  intros Hfew. unfold recover.
  set (R := collect O dec f hm (uniq sigs) t n []).
  assert (Hg : good (uniq sigs) R).
  { apply collect_good; [apply incl_refl|]. split; [constructor|intros e []]. }
  destruct Hg as [HndR Hall].
  apply recover_commit_too_few.
  rewrite kept_to_pshares by (intros e He; apply (Hall e He)).
  rewrite <- (map_length fst R). apply Hfew; [exact HndR|].
  intros i Hi. apply in_map_iff in Hi. destruct Hi as [e [<- He]].
  destruct (Hall e He) as [_ [_ [s [Hs Hv]]]]. exists s. split; [apply uniq_in; exact Hs|exact Hv].
Qed.

Theorem recovered_verifies (sigs : list (list N)) (t : Z) (sg : F) :
  (n <= nmax)%Z -> (Z.of_nat (length f) <= t)%Z ->
  recover O d0 dec f hm sigs t n = Ok sg -> sg = hd 0 f * hm.
Proof.
  intros Hn Hf. unfold recover.
  set (R := collect O dec f hm (uniq sigs) t n []).
  assert (Hg : good (uniq sigs) R).
  { apply collect_good; [apply incl_refl|]. split; [constructor|intros e []]. }
  destruct Hg as [HndR Hall].
  assert (Hk : kept (to_pshares R) n None = R).
  { apply kept_to_pshares. intros e He. apply (Hall e He). }
  destruct (Z.ltb (Z.of_nat (length R)) t) eqn:Et.
  - apply Z.ltb_lt in Et. rewrite recover_commit_too_few by (rewrite Hk; exact Et). discriminate.
  - apply Z.ltb_ge in Et.
    rewrite (recover_commit_ok O M L self_glaws nmax NL d0 f hm (to_pshares R) t n Hn); rewrite ?Hk.
    + intros [= <-]. reflexivity.
    + exact Et.
    + lia.
    + exact HndR.
    + intros iv Hiv. destruct (Hall iv Hiv) as [_ [E _]]. rewrite E. cbn [self_gops gscale]. ring.
Qed.

(* the recovered value passes the BLS check under the group key f(0) *)
Theorem recovered_passes_bls (sg : F) (enc : list N) :
  sg = hd 0 f * hm -> dec enc = Some sg -> bls_verify O dec (hd 0 f) hm enc = true.
Proof.
  intros -> Hd. unfold bls_verify. rewrite Hd. apply (F_eqb O L). ring.
Qed.

(* recovery never panics: it is an error or the group signature *)
Theorem recover_cases (sigs : list (list N)) (t : Z) :
  (n <= nmax)%Z -> (Z.of_nat (length f) <= t)%Z ->
  recover O d0 dec f hm sigs t n = Err \/ recover O d0 dec f hm sigs t n = Ok (hd 0 f * hm).
Proof.
  intros Hn Hf. unfold recover.
  set (R := collect O dec f hm (uniq sigs) t n []).
  assert (Hg : good (uniq sigs) R).
  { apply collect_good; [apply incl_refl|]. split; [constructor|intros e []]. }
  destruct Hg as [HndR Hall].
  assert (Hk : kept (to_pshares R) n None = R).
  { apply kept_to_pshares. intros e He. apply (Hall e He). }
  destruct (Z.ltb (Z.of_nat (length R)) t) eqn:Et.
  - left. apply Z.ltb_lt in Et. apply recover_commit_too_few. rewrite Hk. exact Et.
  - right. apply Z.ltb_ge in Et.
    rewrite (recover_commit_ok O M L self_glaws nmax NL d0 f hm (to_pshares R) t n Hn); rewrite ?Hk.
    + reflexivity.
    + exact Et.
    + lia.
    + exact HndR.
    + intros iv Hiv. destruct (Hall iv Hiv) as [_ [E _]]. rewrite E. cbn [self_gops gscale]. ring.
Qed.

End TblsProofs.
