(* ScInstances.v -- the generated limb programs (Gen/Ref10Sc.v) compute, modulo the group order,
   a*b+c, a*b, a+c, a-c and the reduction of a 512-bit value. *)
From Coq Require Import ZArith List Bool Lia Ring.
From DosVerif Require Import Models.ScLimbs Proofs.ScLimbsProofs Gen.Ref10Sc.
Import ListNotations.
Open Scope Z_scope.

(* the integer the n limbs of an operand stand for *)
Definition opval (f : nat -> Z) (n : nat) : Z := val_from 0 (map f (seq 0 n)).

Ltac powers := repeat match goal with |- context [2 ^ ?e] => let v := eval vm_compute in (2 ^ e) in change (2 ^ e) with v end.

Lemma eval_init_length opnd init : length (eval_init opnd init) = length init.
Proof. apply map_length. Qed.

Lemma congr_trans x y z : (x - y) mod ell = 0 -> (y - z) mod ell = 0 -> (x - z) mod ell = 0.
Proof.
  intros H1 H2. replace (x - z) with ((x - y) + (y - z)) by ring.
  rewrite Z.add_mod, H1, H2 by (unfold ell; lia). reflexivity.
Qed.

Lemma init_muladd opnd :
  value (eval_init opnd scMulAdd_init) = opval (opnd 0%nat) 12 * opval (opnd 1%nat) 12 + opval (opnd 2%nat) 12.
Proof.
  unfold value, opval, eval_init, scMulAdd_init.
  cbn [map seq val_from eval_limb fold_right eval_term sgn Nat.add]. powers. ring.
Qed.

Theorem scMulAdd_congruent opnd :
  (value (run scMulAdd_ops (eval_init opnd scMulAdd_init))
   - (opval (opnd 0%nat) 12 * opval (opnd 1%nat) 12 + opval (opnd 2%nat) 12)) mod ell = 0.
Proof.
  rewrite <- init_muladd. apply run_preserves. rewrite eval_init_length. vm_compute. reflexivity.
Qed.

Lemma init_mul opnd :
  value (eval_init opnd scMul_init) = opval (opnd 0%nat) 12 * opval (opnd 1%nat) 12.
Proof.
  unfold value, opval, eval_init, scMul_init.
  cbn [map seq val_from eval_limb fold_right eval_term sgn Nat.add]. powers. ring.
Qed.

Theorem scMul_congruent opnd :
  (value (run scMul_ops (eval_init opnd scMul_init)) - opval (opnd 0%nat) 12 * opval (opnd 1%nat) 12) mod ell = 0.
Proof.
  rewrite <- init_mul. apply run_preserves. rewrite eval_init_length. vm_compute. reflexivity.
Qed.

Lemma init_add opnd :
  value (eval_init opnd scAdd_init) = opval (opnd 0%nat) 12 + opval (opnd 2%nat) 12.
Proof.
  unfold value, opval, eval_init, scAdd_init.
  cbn [map seq val_from eval_limb fold_right eval_term sgn Nat.add]. powers. ring.
Qed.

Theorem scAdd_congruent opnd :
  (value (run scAdd_ops (eval_init opnd scAdd_init)) - (opval (opnd 0%nat) 12 + opval (opnd 2%nat) 12)) mod ell = 0.
Proof.
  rewrite <- init_add. apply run_preserves. rewrite eval_init_length. vm_compute. reflexivity.
Qed.

(* scSub starts from a - c + K where K (the constants in the source) is a multiple of the order *)
Definition sub_bias : Z := value (eval_init (fun _ _ => 0) scSub_init).

Lemma sub_bias_multiple : sub_bias mod ell = 0.
Proof. vm_compute. reflexivity. Qed.

Lemma init_sub opnd :
  value (eval_init opnd scSub_init) = opval (opnd 0%nat) 12 - opval (opnd 2%nat) 12 + sub_bias.
Proof.
  unfold sub_bias. unfold value, opval, eval_init, scSub_init.
  cbn [map seq val_from eval_limb fold_right eval_term sgn Nat.add]. powers. ring.
Qed.

Theorem scSub_congruent opnd :
  (value (run scSub_ops (eval_init opnd scSub_init)) - (opval (opnd 0%nat) 12 - opval (opnd 2%nat) 12)) mod ell = 0.
Proof.
  apply (congr_trans _ (value (eval_init opnd scSub_init))).
  - apply run_preserves. rewrite eval_init_length. vm_compute. reflexivity.
  - rewrite init_sub.
    replace (opval (opnd 0%nat) 12 - opval (opnd 2%nat) 12 + sub_bias - (opval (opnd 0%nat) 12 - opval (opnd 2%nat) 12))
      with sub_bias by ring.
    apply sub_bias_multiple.
Qed.

Lemma init_reduce opnd : value (eval_init opnd scReduce_init) = opval (opnd 3%nat) 24.
Proof.
  unfold value, opval, eval_init, scReduce_init.
  cbn [map seq val_from eval_limb fold_right eval_term sgn Nat.add]. powers. ring.
Qed.

Theorem scReduce_congruent opnd :
  (value (run scReduce_ops (eval_init opnd scReduce_init)) - opval (opnd 3%nat) 24) mod ell = 0.
Proof.
  rewrite <- init_reduce. apply run_preserves. rewrite eval_init_length. vm_compute. reflexivity.
Qed.
