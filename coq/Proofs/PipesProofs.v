(* PipesProofs.v -- for every network that satisfies the static conditions [wf]:
     safety       no reachable state can panic (close of a closed channel, send on a closed
                  channel, WaitGroup misuse);
     progress     after cancellation a state in which nothing can move is final: every
                  goroutine has exited (hence, by the exit obligations, closed its channels);
     termination  after cancellation there is no infinite execution (under [pstep]). *)
From Coq Require Import List Arith Bool Lia PeanoNat Wellfounded.
From DosVerif Require Import Models.Pipes.
Import ListNotations.

Section Proofs.
Variable N : net.
Hypothesis Hwf : wf N.
Variable ctr0 : pid -> nat.

Notation P := (P N).
Notation node_at := (node_at N).
Notation node_of := (node_of N).
Notation must_at := (must_at N).
Notation may_at := (may_at N).
Notation rk_at := (rk_at N).
Notation closer := (closer N).
Notation owes := (owes N).
Notation members := (members N).
Notation wg_for := (wg_for N).
Notation cap := (cap N).

Lemma upd_same {A} (f : nat -> A) k v : upd f k v k = v.
Proof. unfold upd. rewrite Nat.eqb_refl. reflexivity. Qed.

Lemma upd_other {A} (f : nat -> A) k v j : j <> k -> upd f k v j = f j.
Proof. intros H. unfold upd. destruct (Nat.eqb_spec j k); [contradiction|reflexivity]. Qed.

Lemma node_at_dummy p pc : length (procs N) <= p -> node_at p pc = NExit.
Proof.
  intros H. unfold Pipes.node_at, Pipes.P. rewrite (nth_overflow (procs N) dummy_proc H).
  cbn. destruct pc; reflexivity.
Qed.

Lemma must_at_dummy p pc : length (procs N) <= p -> must_at p pc = [].
Proof.
  intros H. unfold Pipes.must_at, Pipes.P. rewrite (nth_overflow (procs N) dummy_proc H).
  cbn. destruct pc; reflexivity.
Qed.

Lemma in_remove_pid p q l : In q (remove_pid p l) <-> In q l /\ q <> p.
Proof.
  unfold remove_pid. rewrite filter_In. split; intros [H1 H2]; split; auto.
  - intros ->. rewrite Nat.eqb_refl in H2. discriminate.
  - destruct (Nat.eqb_spec q p); [contradiction|reflexivity].
Qed.

Record Inv (s : st) : Prop := mkinv {
  inv_pc : forall p, p < length (procs N) -> pcs s p < length (code (P p));
  inv_must : forall p, incl (must_at p (pcs s p)) (hist s p);
  inv_may : forall p, incl (hist s p) (may_at p (pcs s p));
  inv_closed1 : forall p c, In (EClosed c) (hist s p) -> closed s c = true /\ closer c = Some p;
  inv_closed2 : forall c, closed s c = true -> exists p, In (EClosed c) (hist s p);
  inv_pending : forall w p, In p (pending s w) <-> In p (members w) /\ ~ In (EDone w) (hist s p);
  inv_waited : forall p w, In (EWaited w) (hist s p) -> pending s w = [];
  inv_closed_waited : forall p c w, In (EClosed c) (hist s p) -> wg_for c = Some w ->
                                    In (EWaited w) (hist s p)
}.

Lemma inv_init : Inv (init N ctr0).
Proof.
  constructor; cbn; intros.
  - apply (wf_code_nonempty N Hwf). assumption.
  - destruct (le_lt_dec (length (procs N)) p) as [Hp|Hp].
    + rewrite must_at_dummy by assumption. apply incl_nil_l.
    + rewrite (wf_must0 N Hwf). apply incl_nil_l.
  - apply incl_nil_l.
  - contradiction.
  - discriminate.
  - split; [intros H; split; [exact H|intros []]|intros [H _]; exact H].
  - contradiction.
  - contradiction.
Qed.

(* moving along an edge of the graph keeps the certificates in step with the history *)
Lemma edge_must p pc k h :
  In k (succs_of (node_at p pc)) -> incl (must_at p pc) h ->
  incl (must_at p k) (events_of (node_at p pc) ++ h).
Proof.
  intros Hk Hm. eapply incl_tran; [apply (wf_must_edges N Hwf); exact Hk|].
  apply incl_app; [apply incl_appl, incl_refl|apply incl_appr; exact Hm].
Qed.

Lemma edge_may p pc k h :
  In k (succs_of (node_at p pc)) -> incl h (may_at p pc) ->
  incl (events_of (node_at p pc) ++ h) (may_at p k).
Proof.
  intros Hk Hm. eapply incl_tran; [|apply (wf_may_edges N Hwf); exact Hk].
  apply incl_app; [apply incl_appl, incl_refl|apply incl_appr; exact Hm].
Qed.

(* a move of one process along an edge that performs no event *)
Lemma inv_move s p k :
  Inv s -> In k (succs_of (node_of s p)) -> events_of (node_of s p) = [] ->
  forall s', pcs s' = upd (pcs s) p k -> hist s' = hist s -> closed s' = closed s ->
             pending s' = pending s -> Inv s'.
Proof.
  intros I Hk He s' Hpc Hh Hc Hp. unfold Pipes.node_of in *.
  constructor; intros; rewrite ?Hpc, ?Hh, ?Hc, ?Hp.
  - unfold upd. destruct (Nat.eqb_spec p0 p) as [->|Hne]; [|apply (inv_pc s I); assumption].
    apply (wf_succ_range N Hwf p (pcs s p)); [apply (inv_pc s I); assumption|exact Hk].
  - unfold upd. destruct (Nat.eqb_spec p0 p) as [->|Hne]; [|apply (inv_must s I)].
    pose proof (edge_must p (pcs s p) k (hist s p) Hk (inv_must s I p)) as H1.
    rewrite He in H1. exact H1.
  - unfold upd. destruct (Nat.eqb_spec p0 p) as [->|Hne]; [|apply (inv_may s I)].
    pose proof (edge_may p (pcs s p) k (hist s p) Hk (inv_may s I p)) as H1.
    rewrite He in H1. exact H1.
  - rewrite Hh in H. apply (inv_closed1 s I); assumption.
  - rewrite Hc in H. destruct (inv_closed2 s I c H) as [q Hq]. exists q. exact Hq.
  - apply (inv_pending s I).
  - rewrite Hh in H. apply (inv_waited s I p0); assumption.
  - rewrite Hh in *. apply (inv_closed_waited s I p0 c); assumption.
Qed.

Lemma succ_sel_recv_v arms dn df c kv kc :
  In (ARecv c kv kc) arms -> In kv (succs_of (NSel arms dn df)).
Proof.
  intros H. unfold succs_of. apply in_or_app. left. apply in_flat_map. exists (ARecv c kv kc). split; [exact H|cbn; auto].
Qed.

Lemma succ_sel_recv_c arms dn df c kv kc :
  In (ARecv c kv kc) arms -> In kc (succs_of (NSel arms dn df)).
Proof.
  intros H. unfold succs_of. apply in_or_app. left. apply in_flat_map. exists (ARecv c kv kc). split; [exact H|cbn; auto].
Qed.

Lemma succ_sel_send arms dn df c k :
  In (ASend c k) arms -> In k (succs_of (NSel arms dn df)).
Proof.
  intros H. unfold succs_of. apply in_or_app. left. apply in_flat_map. exists (ASend c k). split; [exact H|cbn; auto].
Qed.

Lemma succ_sel_done arms d df : In d (succs_of (NSel arms (Some d) df)).
Proof. unfold succs_of. apply in_or_app. right. apply in_or_app. left. left. reflexivity. Qed.

Lemma succ_sel_dflt arms dn d : In d (succs_of (NSel arms dn (Some d))).
Proof. unfold succs_of. apply in_or_app. right. apply in_or_app. right. left. reflexivity. Qed.

Lemma inv_step s s' : Inv s -> step N s s' -> Inv s'.
Proof.
  intros I Hs. unfold step in Hs.
  inversion Hs; subst; clear Hs.
  - (* tau *)
    eapply (inv_move s p k I); try reflexivity; rewrite H; cbn; auto.
  - (* close *)
    unfold Pipes.node_of in H.
    destruct (wf_close N Hwf p (pcs s p) c k H) as [Hcl [Hnm _]].
    assert (Hk : In k (succs_of (node_at p (pcs s p)))) by (rewrite H; cbn; auto).
    constructor; cbn.
    + intros q Hq. unfold upd. destruct (Nat.eqb_spec q p) as [->|Hne]; [|apply (inv_pc s I); assumption].
      apply (wf_succ_range N Hwf p (pcs s p)); [apply (inv_pc s I); assumption|exact Hk].
    + intros q. unfold upd. destruct (Nat.eqb_spec q p) as [->|Hne]; [|apply (inv_must s I)].
      pose proof (edge_must p (pcs s p) k (hist s p) Hk (inv_must s I p)) as H1.
      rewrite H in H1. exact H1.
    + intros q. unfold upd. destruct (Nat.eqb_spec q p) as [->|Hne]; [|apply (inv_may s I)].
      pose proof (edge_may p (pcs s p) k (hist s p) Hk (inv_may s I p)) as H1.
      rewrite H in H1. exact H1.
    + intros q d Hin. unfold upd in *. destruct (Nat.eqb_spec q p) as [->|Hne].
      * destruct Hin as [Heq|Hin].
        -- inversion Heq; subst. rewrite Nat.eqb_refl. auto.
        -- destruct (inv_closed1 s I p d Hin) as [Hc1 Hc2]. split; [|exact Hc2].
           destruct (Nat.eqb_spec d c); auto.
      * destruct (inv_closed1 s I q d Hin) as [Hc1 Hc2]. split; [|exact Hc2].
        destruct (Nat.eqb_spec d c); auto.
    + intros d Hd. unfold upd in *. destruct (Nat.eqb_spec d c) as [Heq|Hne].
      * exists p. rewrite Nat.eqb_refl. left. rewrite Heq. reflexivity.
      * destruct (inv_closed2 s I d Hd) as [q Hq]. exists q.
        destruct (Nat.eqb_spec q p) as [->|]; [right|]; exact Hq.
    + intros w q. rewrite (inv_pending s I w q). unfold upd. destruct (Nat.eqb_spec q p) as [->|Hne]; [|tauto].
      split; intros [Ha Hb]; split; auto.
      * intros [Hx|Hx]; [discriminate|auto].
      * intros Hx. apply Hb. right; exact Hx.
    + intros q w Hin. unfold upd in Hin. destruct (Nat.eqb_spec q p) as [->|Hne].
      * destruct Hin as [Hx|Hx]; [discriminate|]. apply (inv_waited s I p w Hx).
      * apply (inv_waited s I q w Hin).
    + intros q d w Hin Hw. unfold upd in *. destruct (Nat.eqb_spec q p) as [->|Hne].
      * right. destruct Hin as [Hx|Hx].
        -- inversion Hx; subst. apply (inv_must s I p).
           destruct (wf_close N Hwf p (pcs s p) d k H) as [_ [_ Hww]]. apply Hww; exact Hw.
        -- apply (inv_closed_waited s I p d w Hx Hw).
      * apply (inv_closed_waited s I q d w Hin Hw).
  - (* wg done *)
    unfold Pipes.node_of in H.
    destruct (wf_wgdone N Hwf p (pcs s p) w k H) as [Hmem Hnm].
    assert (Hk : In k (succs_of (node_at p (pcs s p)))) by (rewrite H; cbn; auto).
    constructor; cbn.
    + intros q Hq. unfold upd. destruct (Nat.eqb_spec q p) as [->|Hne]; [|apply (inv_pc s I); assumption].
      apply (wf_succ_range N Hwf p (pcs s p)); [apply (inv_pc s I); assumption|exact Hk].
    + intros q. unfold upd. destruct (Nat.eqb_spec q p) as [->|Hne]; [|apply (inv_must s I)].
      pose proof (edge_must p (pcs s p) k (hist s p) Hk (inv_must s I p)) as H1.
      rewrite H in H1. exact H1.
    + intros q. unfold upd. destruct (Nat.eqb_spec q p) as [->|Hne]; [|apply (inv_may s I)].
      pose proof (edge_may p (pcs s p) k (hist s p) Hk (inv_may s I p)) as H1.
      rewrite H in H1. exact H1.
    + intros q d Hin. unfold upd in Hin. destruct (Nat.eqb_spec q p) as [->|Hne].
      * destruct Hin as [Hx|Hx]; [discriminate|]. apply (inv_closed1 s I p d Hx).
      * apply (inv_closed1 s I q d Hin).
    + intros d Hd. destruct (inv_closed2 s I d Hd) as [q Hq]. exists q. unfold upd.
      destruct (Nat.eqb_spec q p) as [->|]; [right|]; exact Hq.
    + intros v q. unfold upd. destruct (Nat.eqb_spec v w) as [->|Hnw].
      * rewrite in_remove_pid, (inv_pending s I w q).
        destruct (Nat.eqb_spec q p) as [->|Hne].
        -- split; [intros [_ Hx]; contradiction|intros [_ Hx]; exfalso; apply Hx; left; reflexivity].
        -- tauto.
      * rewrite (inv_pending s I v q).
        destruct (Nat.eqb_spec q p) as [->|Hne]; [|tauto].
        split; intros [Ha Hb]; split; auto.
        -- intros [Hx|Hx]; [inversion Hx; congruence|auto].
        -- intros Hx. apply Hb. right; exact Hx.
    + intros q v Hin. unfold upd in *. assert (Hw : In (EWaited v) (hist s q)).
      { destruct (Nat.eqb_spec q p) as [->|]; [destruct Hin as [Hx|Hx]; [discriminate|exact Hx]|exact Hin]. }
      pose proof (inv_waited s I q v Hw) as He.
      destruct (Nat.eqb_spec v w) as [->|]; [rewrite He; reflexivity|exact He].
    + intros q d v Hin Hw. unfold upd in *. destruct (Nat.eqb_spec q p) as [->|Hne].
      * right. destruct Hin as [Hx|Hx]; [discriminate|]. apply (inv_closed_waited s I p d v Hx Hw).
      * apply (inv_closed_waited s I q d v Hin Hw).
  - (* wg wait *)
    unfold Pipes.node_of in H.
    assert (Hk : In k (succs_of (node_at p (pcs s p)))) by (rewrite H; cbn; auto).
    constructor; cbn.
    + intros q Hq. unfold upd. destruct (Nat.eqb_spec q p) as [->|Hne]; [|apply (inv_pc s I); assumption].
      apply (wf_succ_range N Hwf p (pcs s p)); [apply (inv_pc s I); assumption|exact Hk].
    + intros q. unfold upd. destruct (Nat.eqb_spec q p) as [->|Hne]; [|apply (inv_must s I)].
      pose proof (edge_must p (pcs s p) k (hist s p) Hk (inv_must s I p)) as H1.
      rewrite H in H1. exact H1.
    + intros q. unfold upd. destruct (Nat.eqb_spec q p) as [->|Hne]; [|apply (inv_may s I)].
      pose proof (edge_may p (pcs s p) k (hist s p) Hk (inv_may s I p)) as H1.
      rewrite H in H1. exact H1.
    + intros q d Hin. unfold upd in Hin. destruct (Nat.eqb_spec q p) as [->|Hne].
      * destruct Hin as [Hx|Hx]; [discriminate|]. apply (inv_closed1 s I p d Hx).
      * apply (inv_closed1 s I q d Hin).
    + intros d Hd. destruct (inv_closed2 s I d Hd) as [q Hq]. exists q. unfold upd.
      destruct (Nat.eqb_spec q p) as [->|]; [right|]; exact Hq.
    + intros v q. rewrite (inv_pending s I v q). unfold upd.
      destruct (Nat.eqb_spec q p) as [->|Hne]; [|tauto].
      split; intros [Ha Hb]; split; auto.
      * intros [Hx|Hx]; [discriminate|auto].
      * intros Hx. apply Hb. right; exact Hx.
    + intros q v Hin. unfold upd in Hin. destruct (Nat.eqb_spec q p) as [->|Hne].
      * destruct Hin as [Hx|Hx]; [inversion Hx; subst; exact H0|apply (inv_waited s I p v Hx)].
      * apply (inv_waited s I q v Hin).
    + intros q d v Hin Hw. unfold upd in *. destruct (Nat.eqb_spec q p) as [->|Hne].
      * right. destruct Hin as [Hx|Hx]; [discriminate|]. apply (inv_closed_waited s I p d v Hx Hw).
      * apply (inv_closed_waited s I q d v Hin Hw).
  - (* cancel *)
    eapply (inv_move s p k I); try reflexivity; rewrite H; cbn; auto.
  - (* timer *)
    destruct I. constructor; cbn; auto.
  - (* loop exit *)
    eapply (inv_move s p ke I); try reflexivity; rewrite H; cbn; auto.
  - (* loop enter *)
    eapply (inv_move s p kb I); try reflexivity; rewrite H; cbn; auto.
  - (* done *)
    eapply (inv_move s p d I); try reflexivity; rewrite H; [apply succ_sel_done|reflexivity].
  - (* default *)
    eapply (inv_move s p df I); try reflexivity; rewrite H; [apply succ_sel_dflt|reflexivity].
  - (* sync *)
    assert (I1 : Inv (move s p k)).
    { eapply (inv_move s p k I); try reflexivity; rewrite H0; [eapply succ_sel_send; eassumption|reflexivity]. }
    assert (Hq : node_of (move s p k) q = NSel armsq dnq dfq).
    { unfold Pipes.node_of, move; cbn. rewrite upd_other by auto. exact H3. }
    eapply (inv_move (move s p k) q kv I1); try reflexivity; rewrite Hq;
      [eapply succ_sel_recv_v; eassumption|reflexivity].
  - (* buffered send *)
    eapply (inv_move s p k I); try reflexivity; rewrite H; [eapply succ_sel_send; eassumption|reflexivity].
  - (* buffered receive *)
    eapply (inv_move s p kv I); try reflexivity; rewrite H; [eapply succ_sel_recv_v; eassumption|reflexivity].
  - (* receive on closed *)
    eapply (inv_move s p kc I); try reflexivity; rewrite H; [eapply succ_sel_recv_c; eassumption|reflexivity].
Qed.

Lemma inv_reach s : reach N ctr0 s -> Inv s.
Proof. induction 1; [apply inv_init|eapply inv_step; eassumption]. Qed.

(* ---------------------------------------------------------------- safety *)

Lemma inv_not_bad s : Inv s -> ~ bad N s.
Proof.
  intros I Hb.
  inversion Hb; subst; clear Hb; unfold Pipes.node_of in *.
  - (* close of a closed channel *)
    destruct (wf_close N Hwf p (pcs s p) c k H) as [Hcl [Hnm _]].
    destruct (inv_closed2 s I c H0) as [q Hq].
    destruct (inv_closed1 s I q c Hq) as [_ Hcq].
    rewrite Hcl in Hcq. inversion Hcq; subst q.
    apply Hnm. apply (inv_may s I p). exact Hq.
  - (* Done by a goroutine that is not counted *)
    destruct (wf_wgdone N Hwf p (pcs s p) w k H) as [Hmem Hnm].
    apply H0. apply (inv_pending s I w p). split; [exact Hmem|].
    intros Hd. apply Hnm. apply (inv_may s I p). exact Hd.
  - (* send on a closed channel *)
    destruct (inv_closed2 s I c H1) as [q Hq].
    destruct (inv_closed1 s I q c Hq) as [_ Hcq].
    destruct (wf_send N Hwf p (pcs s p) arms dn df c k H H0) as [Hn|[[Hcp Hnm]|[w [Hw [Hmem Hnd]]]]].
    + rewrite Hn in Hcq. discriminate.
    + rewrite Hcp in Hcq. inversion Hcq; subst q. apply Hnm. apply (inv_may s I p). exact Hq.
    + pose proof (inv_closed_waited s I q c w Hq Hw) as Hwt.
      pose proof (inv_waited s I q w Hwt) as Hpe.
      assert (Hin : In p (pending s w)).
      { apply (inv_pending s I w p). split; [exact Hmem|].
        intros Hd. apply Hnd. apply (inv_may s I p). exact Hd. }
      rewrite Hpe in Hin. contradiction.
Qed.

Theorem no_panic s : reach N ctr0 s -> ~ bad N s.
Proof. intros Hr. apply inv_not_bad, inv_reach, Hr. Qed.

(* ---------------------------------------------------------------- progress after cancellation *)

Lemma exited_obligations s q :
  Inv s -> q < length (procs N) -> exited N s q ->
  (forall c, closer c = Some q -> owes c = true -> closed s c = true) /\
  (forall w, In q (members w) -> In (EDone w) (hist s q)).
Proof.
  intros I Hq He. unfold exited, Pipes.node_of in He.
  destruct (wf_exit N Hwf q (pcs s q) (inv_pc s I q Hq) He) as [H1 H2]. split.
  - intros c Hc Ho. apply (inv_closed1 s I q c). apply (inv_must s I q). apply H1; assumption.
  - intros w Hw. apply (inv_must s I q). apply H2; exact Hw.
Qed.

Lemma can_move s p :
  Inv s -> cancelled s = true ->
  (forall q, prank (P q) < prank (P p) -> exited N s q) ->
  exited N s p \/ exists s', pstep N s s'.
Proof.
  intros I Hc Hlow. unfold exited. destruct (node_of s p) as [arms dn df|succs|c k|w k|w k|k|kb ke|] eqn:Hn.
  - (* select *)
    right. destruct dn as [d|].
    + eexists. eapply s_done; eassumption.
    + destruct df as [d|].
      * eexists. eapply (s_default N true s p arms None d Hn). intros _ _. reflexivity.
      * unfold Pipes.node_of in Hn.
        destruct (wf_await N Hwf p (pcs s p) arms None Hn) as [Hne Harms].
        destruct arms as [|a arms']; [exfalso; apply Hne; reflexivity|].
        destruct (Harms a (or_introl eq_refl)) as [c [kv [kc [q [-> [Hcl [How Hrk]]]]]]].
        assert (Hq : q < length (procs N)) by (eapply (wf_nprocs N Hwf); exact Hcl).
        destruct (exited_obligations s q I Hq (Hlow q Hrk)) as [Hcls _].
        pose proof (Hcls c Hcl How) as Hclosed.
        destruct (buf s c) as [|n] eqn:Hb.
        -- eexists. eapply (s_recvclosed N true s p c kv kc); try eassumption; [left; reflexivity|intros _ _; reflexivity].
        -- eexists. eapply (s_bufrecv N true s p c kv kc); try eassumption; [left; reflexivity|intros _ _; reflexivity].
  - (* internal step *)
    right. destruct succs as [|k succs'].
    + exfalso. unfold Pipes.node_of in Hn. exact (wf_tau_nonempty N Hwf p (pcs s p) Hn).
    + eexists. eapply (s_tau N true s p (k :: succs') k Hn). left; reflexivity.
  - (* close *)
    right. destruct (closed s c) eqn:Hcl.
    + exfalso. apply (inv_not_bad s I). eapply b_close; eassumption.
    + eexists. eapply s_close; eassumption.
  - (* wg done *)
    right. destruct (in_dec Nat.eq_dec p (pending s w)) as [Hin|Hnin].
    + eexists. eapply s_wgdone; eassumption.
    + exfalso. apply (inv_not_bad s I). eapply b_wgdone; eassumption.
  - (* wg wait *)
    right. assert (Hpe : pending s w = []).
    { destruct (pending s w) as [|m l] eqn:Hp; [reflexivity|exfalso].
      assert (Hin : In m (pending s w)) by (rewrite Hp; left; reflexivity).
      apply (inv_pending s I w m) in Hin. destruct Hin as [Hm Hnd]. apply Hnd.
      unfold Pipes.node_of in Hn.
      pose proof (wf_wgwait N Hwf p (pcs s p) w k Hn m Hm) as Hrk.
      assert (Hq : m < length (procs N)) by (eapply (wf_members_lt N Hwf); exact Hm).
      destruct (exited_obligations s m I Hq (Hlow m Hrk)) as [_ Hd]. apply Hd; exact Hm. }
    eexists. eapply s_wgwait; eassumption.
  - right. eexists. eapply s_cancel; eassumption.
  - right. eexists. eapply s_loop_exit; eassumption.
  - left. reflexivity.
Qed.

Theorem stuck_is_final s :
  reach N ctr0 s -> cancelled s = true -> stuck N s -> final N s.
Proof.
  intros Hr Hc Hst. pose proof (inv_reach s Hr) as I.
  assert (H : forall n p, prank (P p) < n -> exited N s p).
  { induction n as [|n IH]; intros p Hp; [lia|].
    destruct (can_move s p I Hc) as [He|[s' Hs']]; [|exact He|exfalso; exact (Hst s' Hs')].
    intros q Hq. apply IH. lia. }
  intros p. apply (H (S (prank (P p)))). lia.
Qed.

(* everything a final state owes: the channels of the session are closed *)
Theorem final_closed s c :
  reach N ctr0 s -> final N s -> owes c = true -> closed s c = true.
Proof.
  intros Hr Hf Ho. pose proof (inv_reach s Hr) as I.
  destruct (wf_owed N Hwf c Ho) as [q Hc].
  assert (Hq : q < length (procs N)) by (eapply (wf_nprocs N Hwf); exact Hc).
  destruct (exited_obligations s q I Hq (Hf q)) as [H _]. apply H; assumption.
Qed.

(* ---------------------------------------------------------------- termination after cancellation *)

Fixpoint sumf (f : nat -> nat) (n : nat) : nat :=
  match n with 0 => 0 | S m => sumf f m + f m end.

Lemma sumf_ext f g n : (forall q, q < n -> f q = g q) -> sumf f n = sumf g n.
Proof.
  induction n as [|n IH]; intros H; cbn; [reflexivity|].
  rewrite IH by (intros q Hq; apply H; lia). rewrite (H n) by lia. reflexivity.
Qed.

Lemma sumf_change f g n p :
  p < n -> (forall q, q <> p -> f q = g q) -> sumf f n + g p = sumf g n + f p.
Proof.
  induction n as [|n IH]; intros Hp H; [lia|]. cbn.
  destruct (Nat.eq_dec p n) as [->|Hne].
  - rewrite (sumf_ext f g n) by (intros q Hq; apply H; lia). lia.
  - rewrite (H n) by auto. assert (p < n) by lia. specialize (IH H0 H). lia.
Qed.

Lemma buf_le_cap s : reach N ctr0 s -> forall c, buf s c <= cap c.
Proof.
  induction 1 as [|s s' Hr IH Hs]; intros c0; [cbn; lia|].
  unfold step in Hs. inversion Hs; subst; cbn; try apply IH.
  - unfold upd. destruct (Nat.eqb_spec c0 c) as [->|]; [lia|apply IH].
  - unfold upd. destruct (Nat.eqb_spec c0 c) as [->|]; [|apply IH].
    specialize (IH c). lia.
Qed.

Definition K := rkbound N.
Definition phi (s : st) (p : pid) : nat := ctrs s p * K + rk_at p (pcs s p).
Definition mu (s : st) : nat :=
  sumf (fun c => buf s c * K) (length (caps N)) + sumf (phi s) (length (procs N)).

Lemma node_in_range s p : node_of s p <> NExit -> p < length (procs N).
Proof.
  intros H. destruct (le_lt_dec (length (procs N)) p) as [Hp|Hp]; [|exact Hp].
  exfalso. apply H. unfold Pipes.node_of. apply node_at_dummy. exact Hp.
Qed.

(* one process moves to a node of smaller rank, nothing else changes *)
Lemma mu_move s s' p k :
  node_of s p <> NExit -> pcs s' = upd (pcs s) p k -> ctrs s' = ctrs s -> buf s' = buf s ->
  rk_at p k < rk_at p (pcs s p) -> mu s' < mu s.
Proof.
  intros Hn Hpc Hct Hb Hrk. unfold mu. rewrite Hb.
  pose proof (node_in_range s p Hn) as Hp.
  pose proof (sumf_change (phi s') (phi s) (length (procs N)) p Hp) as Hc.
  assert (Ho : forall q, q <> p -> phi s' q = phi s q).
  { intros q Hq. unfold phi. rewrite Hpc, Hct, upd_other by exact Hq. reflexivity. }
  specialize (Hc Ho). unfold phi in Hc at 2 4. rewrite Hpc, Hct, upd_same in Hc. lia.
Qed.

Lemma in_rk_edges_recv_c arms df c kv kc :
  In (ARecv c kv kc) arms -> In kc (rk_edges (NSel arms None df)).
Proof.
  intros H. unfold rk_edges. apply in_or_app. left. apply in_flat_map.
  exists (ARecv c kv kc). split; [exact H|left; reflexivity].
Qed.

Lemma no_send_without_done p pc arms df c k :
  node_at p pc = NSel arms None df -> In (ASend c k) arms -> False.
Proof.
  intros Hn Hin. destruct (wf_await N Hwf p pc arms df Hn) as [_ H].
  destruct (H _ Hin) as [c' [kv [kc [q [Heq _]]]]]. discriminate.
Qed.

Lemma pstep_decreases s s' :
  reach N ctr0 s -> cancelled s = true -> pstep N s s' -> mu s' < mu s.
Proof.
  intros Hr Hc Hs. unfold pstep in Hs.
  inversion Hs; subst; clear Hs; unfold Pipes.node_of in *.
  - eapply (mu_move s _ p k); try reflexivity; [unfold Pipes.node_of; rewrite H; discriminate|].
    apply (wf_rk_edges N Hwf). rewrite H. exact H0.
  - eapply (mu_move s _ p k); try reflexivity; [unfold Pipes.node_of; rewrite H; discriminate|].
    apply (wf_rk_edges N Hwf). rewrite H. left; reflexivity.
  - eapply (mu_move s _ p k); try reflexivity; [unfold Pipes.node_of; rewrite H; discriminate|].
    apply (wf_rk_edges N Hwf). rewrite H. left; reflexivity.
  - eapply (mu_move s _ p k); try reflexivity; [unfold Pipes.node_of; rewrite H; discriminate|].
    apply (wf_rk_edges N Hwf). rewrite H. left; reflexivity.
  - eapply (mu_move s _ p k); try reflexivity; [unfold Pipes.node_of; rewrite H; discriminate|].
    apply (wf_rk_edges N Hwf). rewrite H. left; reflexivity.
  - (* timer *) congruence.
  - eapply (mu_move s _ p ke); try reflexivity; [unfold Pipes.node_of; rewrite H; discriminate|].
    apply (wf_rk_edges N Hwf). rewrite H. left; reflexivity.
  - (* loop entry: the counter pays *)
    unfold mu; cbn [buf].
    assert (Hp : p < length (procs N)) by (apply (node_in_range s p); unfold Pipes.node_of; rewrite H; discriminate).
    match goal with |- _ + sumf (phi ?s1) _ < _ => set (s' := s1) end.
    pose proof (sumf_change (phi s') (phi s) (length (procs N)) p Hp) as Hch.
    assert (Ho : forall q, q <> p -> phi s' q = phi s q).
    { intros q Hq. unfold phi, s'; cbn. rewrite !upd_other by exact Hq. reflexivity. }
    specialize (Hch Ho).
    assert (Hpp : phi s' p = n * K + rk_at p kb) by (unfold phi, s'; cbn; rewrite !upd_same; reflexivity).
    assert (Hps : phi s p = K + n * K + rk_at p (pcs s p)) by (unfold phi; rewrite H0; reflexivity).
    rewrite Hpp, Hps in Hch.
    pose proof (wf_rk_bound N Hwf p kb) as Hb. fold K in Hb. lia.
  - eapply (mu_move s _ p d); try reflexivity; [unfold Pipes.node_of; rewrite H; discriminate|].
    apply (wf_rk_edges N Hwf). rewrite H. left; reflexivity.
  - (* default arm *)
    rewrite (H0 eq_refl Hc) in H.
    eapply (mu_move s _ p df); try reflexivity; [unfold Pipes.node_of; rewrite H; discriminate|].
    apply (wf_rk_edges N Hwf). rewrite H. unfold rk_edges. apply in_or_app. right. left; reflexivity.
  - (* rendez-vous: the sender's select would have no Done arm *)
    exfalso. rewrite (H2 eq_refl Hc) in H0. eapply no_send_without_done; eassumption.
  - exfalso. rewrite (H1 eq_refl Hc) in H. eapply no_send_without_done; eassumption.
  - (* receive from a buffer: the buffer pays *)
    rewrite (H1 eq_refl Hc) in H.
    assert (Hp : p < length (procs N)) by (apply (node_in_range s p); unfold Pipes.node_of; rewrite H; discriminate).
    assert (Hcc : c < length (caps N)).
    { destruct (le_lt_dec (length (caps N)) c) as [Hl|Hl]; [|exact Hl].
      pose proof (buf_le_cap s Hr c) as Hle. unfold Pipes.cap in Hle.
      rewrite (nth_overflow (caps N) 0 Hl) in Hle. lia. }
    unfold mu; cbn [buf pcs ctrs].
    match goal with |- sumf ?fb' _ + sumf (phi ?s1) _ < _ => set (s' := s1); set (fb := fb') end.
    pose proof (sumf_change (phi s') (phi s) (length (procs N)) p Hp) as Hch.
    assert (Ho : forall q, q <> p -> phi s' q = phi s q).
    { intros q Hq. unfold phi, s'; cbn. rewrite !upd_other by exact Hq. reflexivity. }
    specialize (Hch Ho).
    assert (Hpp : phi s' p = ctrs s p * K + rk_at p kv) by (unfold phi, s'; cbn; rewrite !upd_same; reflexivity).
    assert (Hps : phi s p = ctrs s p * K + rk_at p (pcs s p)) by reflexivity.
    rewrite Hpp, Hps in Hch.
    pose proof (sumf_change fb (fun c => buf s c * K) (length (caps N)) c Hcc) as Hcb.
    assert (Hob : forall d, d <> c -> fb d = buf s d * K).
    { intros d Hd. unfold fb. rewrite upd_other by exact Hd. reflexivity. }
    specialize (Hcb Hob).
    assert (Hfc : fb c = n * K) by (unfold fb; rewrite upd_same; reflexivity).
    assert (Hbc : buf s c * K = K + n * K) by (rewrite H2; reflexivity).
    rewrite Hfc, Hbc in Hcb.
    pose proof (wf_rk_bound N Hwf p kv) as Hb. fold K in Hb. lia.
  - (* receive on a closed channel *)
    rewrite (H1 eq_refl Hc) in H.
    eapply (mu_move s _ p kc); try reflexivity; [unfold Pipes.node_of; rewrite H; discriminate|].
    apply (wf_rk_edges N Hwf). rewrite H. eapply in_rk_edges_recv_c; eassumption.
Qed.

Lemma pstep_is_step s s' : pstep N s s' -> step N s s'.
Proof.
  unfold pstep, step. intros H.
  inversion H; subst; try (econstructor; eassumption);
    try (econstructor; try eassumption; intros Hf; discriminate).
Qed.

Lemma pstep_keeps_cancelled s s' : pstep N s s' -> cancelled s = true -> cancelled s' = true.
Proof. intros H Hc. inversion H; subst; cbn; auto. Qed.

(* after cancellation every execution is finite *)
Theorem terminates_after_cancel s :
  reach N ctr0 s -> cancelled s = true -> Acc (fun b a => pstep N a b) s.
Proof.
  intros Hr Hc. remember (mu s) as m eqn:Hm. revert s Hr Hc Hm.
  induction m as [m IH] using lt_wf_ind. intros s Hr Hc Hm.
  constructor. intros s' Hs.
  apply (IH (mu s')).
  - subst m. apply pstep_decreases; assumption.
  - eapply r_step; [exact Hr|apply pstep_is_step; exact Hs].
  - eapply pstep_keeps_cancelled; eassumption.
  - reflexivity.
Qed.
End Proofs.
