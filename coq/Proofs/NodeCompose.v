(* NodeCompose.v -- C01 at the level of the submitter NODE: the collector (Models/QueryLoop.v) feeding
   the recovery stage (Models/Recover.v) the way handleQuery wires them: dispatchSign forwards the
   node's own share to the stage first, then registers the request with the collector, and every
   share the collector hands to the request goes to the same stage.  [pay x] is the message whose
   collector payload is x (the harness' and the model's shares are numbered). *)
From Coq Require Import ZArith NArith List Bool.
From DosVerif Require Import Base.Val Base.Field Models.Share Models.Tbls Models.Stages Models.Recover
     Models.QueryLoop Proofs.TblsProofs Proofs.RecoverProofs Proofs.QueryLoopProofs.
Import ListNotations.
Local Open Scope Z_scope.

Section Node.
Context {F : Type}.
Variable O : Fops F.
Variables (d0 : bool) (dec : list N -> option F) (hm_of : list N -> F) (pub : list F) (t n : Z).

(* what the recovery stage of request (id, r) sees over a history of collector events *)
Definition stage_input (own : smsg) (pay : N -> smsg) (r : N) (es : list ev) : list (option smsg) :=
  Some own :: map (fun x => Some (pay x)) (deliveries_to r (snd (run st0 es))).

Definition node_outcome (own : smsg) (pay : N -> smsg) (r : N) (es : list ev) : sout :=
  run_stage O d0 dec hm_of pub t n [] (stage_input own pay r es).

(* wherever the registration falls among the arrivals, the stage sees the own share followed by
   every arrival for the request id, each once, in arrival order *)
Theorem node_stage_input (own : smsg) (pay : N -> smsg) (id r : N) (es : list ev) :
  wf_events id r es -> existsb (is_reg id r) es = true ->
  stage_input own pay r es = Some own :: map (fun x => Some (pay x)) (peers id es).
Proof.
  intros Hwf Hreg. unfold stage_input. rewrite (exactly_once id r es Hwf), Hreg. reflexivity.
Qed.

(* hence the node's outcome does not depend on WHEN the request was registered relative to the
   arrivals, nor on anything that happened to other requests *)
Theorem node_outcome_order_independent (own : smsg) (pay : N -> smsg) (id r : N) (es1 es2 : list ev) :
  wf_events id r es1 -> wf_events id r es2 ->
  existsb (is_reg id r) es1 = true -> existsb (is_reg id r) es2 = true ->
  peers id es1 = peers id es2 ->
  node_outcome own pay r es1 = node_outcome own pay r es2.
Proof.
  intros H1 H2 R1 R2 E. unfold node_outcome.
  rewrite (node_stage_input own pay id r es1 H1 R1), (node_stage_input own pay id r es2 H2 R2), E. reflexivity.
Qed.

(* liveness at the node: once the own share and the shares that arrived for the request id - before or
   after the registration, in any interleaving with other requests - hold valid shares of t distinct
   members on one content of at least address length, the node reports *)
Theorem node_live (L : Flaws O) (nmax : Z) (NL : NodeLaws O nmax)
        (own : smsg) (pay : N -> smsg) (id r : N) (es : list ev)
        (xs1 xs2 : list N) (x : N) (c0 s0 : list N) (idxs : list Z) :
  n <= nmax -> Z.of_nat (length pub) <= t ->
  wf_events id r es -> existsb (is_reg id r) es = true ->
  peers id es = xs1 ++ x :: xs2 -> pay x = mksmsg (Some c0) (Some s0) ->
  (20 <= length c0)%nat ->
  let pre := Some own :: map (fun y => Some (pay y)) xs1 in
  t <= Z.of_nat (length (sigs_of pre ++ [s0])) ->
  NoDup idxs -> t <= Z.of_nat (length idxs) ->
  (forall i, In i idxs -> exists s, In s (sigs_of pre ++ [s0]) /\ valid O dec pub (hm_of c0) n s i) ->
  node_outcome own pay r es <> Cont.
Proof.
  intros Hn Hp Hwf Hreg Hx Hpay Hc pre Hlen Hnd Hk Hval.
  unfold node_outcome. rewrite (node_stage_input own pay id r es Hwf Hreg), Hx, map_app. cbn [map]. rewrite Hpay.
  change (Some own :: map (fun y => Some (pay y)) xs1 ++ Some (mksmsg (Some c0) (Some s0)) :: map (fun y => Some (pay y)) xs2)
    with (pre ++ Some (mksmsg (Some c0) (Some s0)) :: map (fun y => Some (pay y)) xs2).
  exact (stage_live O L nmax NL d0 dec hm_of pub t n Hn Hp pre _ c0 s0 idxs Hc Hlen Hnd Hk Hval).
Qed.

(* safety at the node: whatever the collector hands over, a report satisfies the contract's equation *)
Theorem node_reports_valid (L : Flaws O) (own : smsg) (pay : N -> smsg) (r : N) (es : list ev) (res : list N) (sg : F) :
  node_outcome own pay r es = Emit res sg ->
  exists c a, length a = 20%nat /\ c = res ++ a /\ sg = fmul O (hm_of c) (hd (f0 O) pub).
Proof. apply (report_verifies_on_chain O L). Qed.

End Node.
