From Coq Require Import ZArith NArith List Bool Lia.
From DosVerif Require Import Base.Val Models.Bn Proofs.BnCodecProofs Models.Abi.
Import ListNotations.
Open Scope Z_scope.

(* ---------------------------------------------------------------- ABI round trip *)

Lemma word_length z : length (word z) = 32%nat.
Proof. apply be_bytes_length. Qed.

Lemma firstn_app_exact {A} (l r : list A) n : length l = n -> firstn n (l ++ r) = l.
Proof. intros <-. rewrite firstn_app, Nat.sub_diag, firstn_all. cbn. apply app_nil_r. Qed.

Lemma skipn_app_exact {A} (l r : list A) n : length l = n -> skipn n (l ++ r) = r.
Proof. intros <-. rewrite skipn_app, Nat.sub_diag, skipn_all. reflexivity. Qed.

Lemma skipn_add {A} (l : list A) a b : skipn (a + b) l = skipn b (skipn a l).
Proof.
  revert l; induction a as [|a IH]; intros l; cbn [Nat.add skipn]; [reflexivity|].
  destruct l as [|x t]; [rewrite !skipn_nil; reflexivity|]. cbn [skipn]. apply IH.
Qed.

Lemma word_val z r : 0 <= z < 2 ^ 256 -> be_val (firstn 32 (word z ++ r)) = z.
Proof. intros H. rewrite (firstn_app_exact _ _ 32 (word_length z)). apply be_val_bytes32; exact H. Qed.

Definition word_ok (z : Z) : Prop := 0 <= z < 2 ^ 256.

Definition arg_ok (a : arg) : Prop :=
  match a with
  | AWord z => word_ok z
  | AFixed ws => Forall word_ok ws
  | ABytes b => Z.of_nat (length b) < 2 ^ 256
  end.

Lemma flat_word_length ws : length (flat_map word ws) = (32 * length ws)%nat.
Proof.
  induction ws as [|w t IH]; [reflexivity|].
  change (flat_map word (w :: t)) with (word w ++ flat_map word t).
  rewrite app_length, word_length, IH. change (length (w :: t)) with (S (length t)).
  rewrite Nat.mul_succ_r, Nat.add_comm. reflexivity.
Qed.

Lemma words_of_flat ws r : Forall word_ok ws -> words_of (length ws) (flat_map word ws ++ r) = ws.
Proof.
  induction 1 as [|w t Hw Ht IH]; cbn [flat_map length words_of]; [reflexivity|].
  rewrite <- app_assoc, (word_val _ _ Hw), (skipn_app_exact _ _ 32 (word_length w)), IH. reflexivity.
Qed.

Definition tails_len (args : list arg) : Z := fold_right (fun a s => Z.of_nat (length (tail_of a)) + s) 0 args.

Lemma tails_len_nonneg args : 0 <= tails_len args.
Proof.
  induction args as [|a t IH]; [cbn; lia|].
  unfold tails_len in *. cbn [fold_right]. lia.
Qed.

Lemma tails_len_cons a r : tails_len (a :: r) = Z.of_nat (length (tail_of a)) + tails_len r.
Proof. reflexivity. Qed.

Lemma dec_enc args : forall off whole hrest trest,
  Forall arg_ok args -> 0 <= off -> off + tails_len args < 2 ^ 256 ->
  skipn (Z.to_nat off) whole = snd (enc_go args off) ++ trest ->
  dec_go (map ty_of args) (fst (enc_go args off) ++ hrest) whole = args.
Proof.
  induction args as [|a r IH]; intros off whole hrest trest Hok Hoff Hb Hsk; [reflexivity|].
  inversion Hok as [|? ? Ha Hr]; subst.
  pose proof (tails_len_nonneg r) as Htn. rewrite tails_len_cons in Hb.
  destruct a as [z|b|ws].
  - (* word *)
    change (enc_go (AWord z :: r) off) with (word z ++ fst (enc_go r (off + 0)), snd (enc_go r (off + 0))) in *.
    rewrite Z.add_0_r in *. cbn [fst snd map ty_of dec_go] in *.
    change (Z.of_nat (length (tail_of (AWord z)))) with 0 in Hb.
    rewrite <- app_assoc, (word_val _ _ Ha), (skipn_app_exact _ _ 32 (word_length z)).
    f_equal. apply (IH off whole hrest trest); auto.
  - (* bytes *)
    cbn [arg_ok] in Ha.
    set (tl := Z.of_nat (length (tail_of (ABytes b)))) in *.
    assert (Htl : 0 <= tl) by (unfold tl; apply Nat2Z.is_nonneg).
    change (enc_go (ABytes b :: r) off)
      with (word off ++ fst (enc_go r (off + tl)), tail_of (ABytes b) ++ snd (enc_go r (off + tl))) in *.
    cbn [fst snd map ty_of dec_go] in *.
    assert (Hofflt : off < 2 ^ 256) by lia.
    rewrite <- app_assoc, (word_val off _ (conj Hoff Hofflt)), (skipn_app_exact _ _ 32 (word_length off)).
    assert (Ht : skipn (Z.to_nat off) whole
                 = word (Z.of_nat (length b)) ++ (pad32 b ++ snd (enc_go r (off + tl)) ++ trest)).
    { rewrite Hsk. unfold tail_of. rewrite <- !app_assoc. reflexivity. }
    rewrite Ht, (word_val _ _ (conj (Nat2Z.is_nonneg _) Ha)), Nat2Z.id.
    rewrite skipn_add, Ht, (skipn_app_exact _ _ 32 (word_length _)).
    unfold pad32. rewrite <- !app_assoc, (firstn_app_exact _ _ (length b) eq_refl).
    f_equal. apply (IH (off + tl) whole hrest trest); auto; try lia.
    unfold tl. rewrite Z2Nat.inj_add by lia. rewrite Nat2Z.id, skipn_add, Hsk.
    rewrite <- app_assoc. apply skipn_app_exact. reflexivity.
  - (* fixed array *)
    change (enc_go (AFixed ws :: r) off) with (flat_map word ws ++ fst (enc_go r (off + 0)), snd (enc_go r (off + 0))) in *.
    rewrite Z.add_0_r in *. cbn [fst snd map ty_of dec_go arg_ok] in *.
    change (Z.of_nat (length (tail_of (AFixed ws)))) with 0 in Hb.
    rewrite <- app_assoc, (words_of_flat _ _ Ha).
    rewrite (skipn_app_exact _ _ (32 * length ws) (flat_word_length ws)).
    f_equal. apply (IH off whole hrest trest); auto.
Qed.

Lemma enc_heads_length args : forall off, Z.of_nat (length (fst (enc_go args off))) = heads_len args.
Proof.
  induction args as [|a r IH]; intros off; cbn [enc_go heads_len fold_right]; [reflexivity|].
  fold (heads_len r). destruct a as [z|b|ws]; cbn [fst head_len]; rewrite app_length, Nat2Z.inj_add, IH.
  - rewrite word_length. lia.
  - rewrite word_length. lia.
  - rewrite flat_word_length. lia.
Qed.

Lemma heads_len_nonneg args : 0 <= heads_len args.
Proof.
  induction args as [|a t IH]; [cbn; lia|].
  unfold heads_len in *. cbn [fold_right]. destruct a; cbn [head_len]; lia.
Qed.

(* the contract decodes exactly the intended arguments *)
Theorem abi_roundtrip args :
  Forall arg_ok args -> heads_len args + tails_len args < 2 ^ 256 ->
  decode_args (map ty_of args) (encode_args args) = args.
Proof.
  intros Hok Hb. unfold decode_args, encode_args.
  apply (dec_enc args (heads_len args) _ (snd (enc_go args (heads_len args))) []); auto.
  - apply heads_len_nonneg.
  - rewrite app_nil_r. apply skipn_app_exact.
    apply Nat2Z.inj. rewrite enc_heads_length, Z2Nat.id by apply heads_len_nonneg. reflexivity.
Qed.

(* ToBigInt: the two words are the two halves of the 64-byte signature, big-endian *)
Theorem to_big_int_halves x y :
  0 <= x < 2 ^ 256 -> 0 <= y < 2 ^ 256 -> to_big_int (be_bytes 32 x ++ be_bytes 32 y) = (x, y).
Proof.
  intros Hx Hy. unfold to_big_int.
  rewrite (firstn_app_exact _ _ 32 (be_bytes_length 32 x)), (skipn_app_exact _ _ 32 (be_bytes_length 32 x)).
  rewrite !be_val_bytes32 by assumption. reflexivity.
Qed.

(* ---------------------------------------------------------------- fail-over *)

Lemma handle_final_cut eps1 : forall i acc o eps2,
  final o = true ->
  handle i (eps1 ++ (true, o) :: eps2) acc = handle i (eps1 ++ [(true, o)]) acc.
Proof.
  induction eps1 as [|[a o1] r IH]; intros i acc o eps2 Hf; cbn [app handle].
  - cbn [negb]. rewrite Hf. reflexivity.
  - destruct (negb a); [apply IH; exact Hf|]. destruct (final o1); [reflexivity|apply IH; exact Hf].
Qed.

(* nothing is sent, and nothing changes, after an endpoint has accepted the call or answered with a
   revert or insufficient funds *)
Theorem no_resend eps1 o eps2 :
  final o = true -> handle_req (eps1 ++ (true, o) :: eps2) = handle_req (eps1 ++ [(true, o)]).
Proof. intros H. apply handle_final_cut; exact H. Qed.

Lemma handle_sent_ge eps : forall i acc j,
  In j (sent (handle i eps acc)) -> In j (sent acc) \/ (i <= j < i + length eps)%nat.
Proof.
  induction eps as [|[a o] r IH]; intros i acc j H; cbn [handle] in H; [left; exact H|].
  destruct (negb a).
  - apply IH in H. cbn [length]. destruct H; [tauto|right; lia].
  - destruct (final o).
    + cbn [sent] in H. destruct (reaches_node o); [|left; exact H].
      apply in_app_or in H. destruct H as [H|[H|[]]]; [tauto|]. subst. right. cbn [length]. lia.
    + apply IH in H. cbn [sent] in H. cbn [length]. destruct H as [H|H]; [|right; lia].
      destruct (reaches_node o); [|tauto].
      apply in_app_or in H. destruct H as [H|[H|[]]]; [tauto|]. subst. right. lia.
Qed.

(* the accepting endpoint, if any, is the last one the call was sent to: at most one accepts *)
Lemma handle_accept_last eps : forall i acc,
  result (handle i eps acc) = Some OAccept ->
  (result acc = Some OAccept /\ handle i eps acc = acc /\ Forall (fun e => fst e = false) eps)
  \/ exists j, sent (handle i eps acc) = removelast (sent (handle i eps acc)) ++ [j]
               /\ nth_error eps (j - i) = Some (true, OAccept) /\ (i <= j)%nat.
Proof.
  induction eps as [|[a o] r IH]; intros i acc H; cbn [handle] in *.
  - left. repeat split; auto.
  - destruct a; cbn [negb] in *.
    + destruct (final o) eqn:Ef.
      * cbn [result] in H. inversion H; subst o. right. exists i. cbn [sent reaches_node].
        rewrite removelast_last. repeat split; [|lia]. rewrite Nat.sub_diag. reflexivity.
      * destruct (IH (S i) _ H) as [[Hr _]|[j [Hs [Hn Hj]]]].
        -- cbn [result] in Hr. inversion Hr; subst o. discriminate.
        -- right. exists j. repeat split; [exact Hs| |lia].
           replace (j - i)%nat with (S (j - S i)) by lia. exact Hn.
    + destruct (IH (S i) acc H) as [[Hr [He Hf]]|[j [Hs [Hn Hj]]]].
      * left. repeat split; auto.
      * right. exists j. repeat split; [exact Hs| |lia].
        replace (j - i)%nat with (S (j - S i)) by lia. exact Hn.
Qed.

(* a connection-class error moves on to the next endpoint *)
Theorem retry_next i o rest acc :
  final o = false ->
  handle i ((true, o) :: rest) acc
  = handle (S i) rest (mkfo (if reaches_node o then sent acc ++ [i] else sent acc) (Some o)
                            (if cancels o then cancelled acc ++ [i] else cancelled acc)).
Proof. intros H. cbn [handle negb]. rewrite H. reflexivity. Qed.

(* an endpoint whose context is done is skipped *)
Theorem dead_skipped i o rest acc : handle i ((false, o) :: rest) acc = handle (S i) rest acc.
Proof. reflexivity. Qed.

(* every endpoint receives the transaction at most once *)
Theorem sent_once eps : NoDup (sent (handle_req eps)).
Proof.
  unfold handle_req.
  assert (H : forall eps i acc, NoDup (sent acc) -> (forall j, In j (sent acc) -> (j < i)%nat) ->
                                NoDup (sent (handle i eps acc))).
  { clear eps. induction eps as [|[a o] r IH]; intros i acc Hn Hlt; cbn [handle]; [exact Hn|].
    assert (Hn' : NoDup (if reaches_node o then sent acc ++ [i] else sent acc)).
    { destruct (reaches_node o); [|exact Hn].
      clear IH. induction (sent acc) as [|x t IHt]; cbn; [repeat constructor; tauto|].
      inversion Hn; subst. constructor.
      - intros Hin. apply in_app_or in Hin. destruct Hin as [Hin|[Hin|[]]]; [contradiction|].
        subst x. specialize (Hlt i (or_introl eq_refl)). lia.
      - apply IHt; [assumption|]. intros j Hj. apply Hlt. right; exact Hj. }
    assert (Hlt' : forall j, In j (if reaches_node o then sent acc ++ [i] else sent acc) -> (j < S i)%nat).
    { intros j Hj. destruct (reaches_node o).
      - apply in_app_or in Hj. destruct Hj as [Hj|[Hj|[]]]; [specialize (Hlt j Hj); lia|subst; lia].
      - specialize (Hlt j Hj). lia. }
    destruct (negb a).
    - apply IH; [exact Hn|]. intros j Hj. specialize (Hlt j Hj). lia.
    - destruct (final o); [exact Hn'|]. apply IH; [exact Hn'|exact Hlt']. }
  apply H; cbn; [constructor|tauto].
Qed.
