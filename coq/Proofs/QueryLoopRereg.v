(* QueryLoopRereg.v -- C13 for a request id that is registered again (a fresh handle: new context,
   new reply channel) after an arbitrary history - the earlier registration may be live,
   cancelled, completed or swept. *)
From Coq Require Import ZArith NArith List Bool.
From DosVerif Require Import Base.Val Models.QueryLoop Proofs.QueryLoopProofs.
Import ListNotations.

Lemma run_app : forall es1 es2 s,
  run s (es1 ++ es2) =
  let '(s1, o1) := run s es1 in let '(s2, o2) := run s1 es2 in (s2, o1 ++ o2).
Proof.
  induction es1 as [|e es1 IH]; intros es2 s.
  - cbn [app run]. destruct (run s es2) as [s2 o2]. reflexivity.
  - cbn [app run]. destruct (step s e) as [sa oa]. rewrite IH.
    destruct (run sa es1) as [s1 o1]. destruct (run s1 es2) as [s2 o2]. rewrite app_assoc. reflexivity.
Qed.

(* r is not mentioned: never registered, never cancelled *)
Definition fresh_in (r : N) (es : list ev) : Prop :=
  ~ In (Cancel r) es /\ forall id', ~ In (Register id' r) es.

Definition fresh_st (r : N) (s : st) : Prop :=
  is_cancelled s r = false /\ forall id', ~ In (id', r) (reg s).

Lemma fresh_step r s e : fresh_in r [e] -> fresh_st r s -> fresh_st r (fst (step s e)).
Proof.
  intros [Hc Hr] [Sc Sr]. destruct e as [k y|k r0|r0|]; cbn [step].
  - destruct (lookup k (reg s)); cbn [fst]; split; assumption.
  - cbn [fst]. split; [exact Sc|]. cbn [reg]. intros id' [H|H].
    + injection H as -> ->. apply (Hr id'). left. reflexivity.
    + apply in_remove in H. exact (Sr id' H).
  - cbn [fst]. split; [|exact Sr]. unfold is_cancelled. cbn [cancelled existsb].
    replace (N.eqb r r0) with false; [exact Sc|]. symmetry. apply N.eqb_neq. intros ->. apply Hc. left. reflexivity.
  - cbn [fst]. split; [exact Sc|]. cbn [reg]. intros id' H. apply filter_In in H. exact (Sr id' (proj1 H)).
Qed.

Lemma fresh_run r : forall es s, fresh_in r es -> fresh_st r s -> fresh_st r (fst (run s es)).
Proof.
  induction es as [|e es IH]; intros s Hf Hs; [exact Hs|].
  cbn [run]. destruct (step s e) as [s1 o1] eqn:Es. destruct (run s1 es) as [s2 o2] eqn:Er. cbn [fst].
  assert (H1 : fresh_st r s1).
  { replace s1 with (fst (step s e)) by (rewrite Es; reflexivity). apply fresh_step; [|exact Hs].
    destruct Hf as [Hc Hr]. split; [intros [H|[]]; apply Hc; left; exact H|intros id' [H|[]]; apply (Hr id'); left; exact H]. }
  replace s2 with (fst (run s1 es)) by (rewrite Er; reflexivity). apply IH; [|exact H1].
  destruct Hf as [Hc Hr]. split; [intros H; apply Hc; right; exact H|intros id' H; apply (Hr id'); right; exact H].
Qed.

Lemma fresh_st0 r : fresh_st r st0.
Proof. split; [reflexivity|intros id' []]. Qed.

(* registering a fresh handle in ANY state of the collector: it receives what is buffered for the
   id, then every later arrival for the id, each exactly once and in order *)
Theorem register_fresh (id r : N) (s : st) (es : list ev) :
  fresh_st r s -> wf_events id r (Register id r :: es) ->
  deliveries_to r (snd (run s (Register id r :: es))) = buf_of s id ++ peers id es.
Proof.
  intros [Sc Sr] Hwf. cbn [run step]. rewrite Sc.
  set (s1 := mkst (remove id (buf s)) (update id r (reg s)) (cancelled s)).
  destruct (run s1 es) as [s2 o2] eqn:Er. cbn [snd]. rewrite deliveries_app, deliveries_map_same. f_equal.
  assert (Hinv : inv id r s1).
  { split; [exact Sc|]. split.
    - intros id' Hne [H|H]; [injection H as E; apply Hne; symmetry; exact E|].
      apply in_remove in H. exact (Sr id' H).
    - left. split; [apply lookup_update_eq|]. unfold buf_of, s1. cbn [buf]. rewrite lookup_remove_eq. reflexivity. }
  pose proof (run_expected id r es s1 (wf_tail id r _ _ Hwf) Hinv) as H. rewrite Er in H. cbn [snd] in H.
  rewrite H. unfold expected. replace (lookup id (reg s1)) with (Some r); [reflexivity|].
  symmetry. apply lookup_update_eq.
Qed.

(* ... in particular after an arbitrary history in which the id may have been registered, served,
   cancelled and swept any number of times *)
Theorem reregistration (id r : N) (es1 es2 : list ev) :
  fresh_in r es1 -> wf_events id r (Register id r :: es2) ->
  deliveries_to r (snd (run st0 (es1 ++ Register id r :: es2))) =
  buf_of (fst (run st0 es1)) id ++ peers id es2.
Proof.
  intros Hf Hwf. rewrite run_app. destruct (run st0 es1) as [s1 o1] eqn:E1.
  pose proof (register_fresh id r s1 es2) as H.
  destruct (run s1 (Register id r :: es2)) as [s2 o2] eqn:E2. cbn [snd fst] in *.
  rewrite deliveries_app, H; [| |exact Hwf].
  - replace (deliveries_to r o1) with (@nil N); [reflexivity|].
    (* nothing was handed to r before it was registered *)
    symmetry. unfold deliveries_to. 
    assert (Hn : forall d, In d o1 -> N.eqb (fst d) r = false).
    { intros [r' x] Hd. cbn [fst]. apply N.eqb_neq. intros ->.
      assert (Hd' : In (r, x) (snd (run st0 es1))) by (rewrite E1; exact Hd).
      destruct (no_crossover es1 r x Hd') as [id' [_ Hr]]. exact (proj2 Hf id' Hr). }
    clear -Hn. induction o1 as [|d o IH]; [reflexivity|]. cbn [filter].
    rewrite (Hn d (or_introl eq_refl)). apply IH. intros d' Hd'. apply Hn. right. exact Hd'.
  - replace s1 with (fst (run st0 es1)) by (rewrite E1; reflexivity).
    apply fresh_run; [exact Hf|apply fresh_st0].
Qed.

(* the buffer of an id that is registered is empty: whatever arrives goes straight to the handle *)
Definition reg_nobuf (s : st) : Prop := forall id, lookup id (reg s) <> None -> buf_of s id = [].

Lemma reg_nobuf_step s e : reg_nobuf s -> reg_nobuf (fst (step s e)).
Proof.
  intros Hs id. destruct e as [k y|k r0|r0|]; cbn [step].
  - destruct (lookup k (reg s)) as [r1|] eqn:El; cbn [fst]; [apply Hs|].
    cbn [reg]. intros Hl. unfold buf_of. cbn [buf].
    destruct (N.eq_dec id k) as [->|Hne]; [congruence|].
    rewrite lookup_update_neq by exact Hne. exact (Hs id Hl).
  - cbn [fst reg]. intros Hl. unfold buf_of. cbn [buf].
    destruct (N.eq_dec id k) as [->|Hne]; [rewrite lookup_remove_eq; reflexivity|].
    rewrite lookup_remove_neq by exact Hne. rewrite lookup_update_neq in Hl by exact Hne. exact (Hs id Hl).
  - cbn [fst]. exact (Hs id).
  - cbn [fst reg]. intros Hl. unfold buf_of. cbn [buf].
    destruct (lookup_fold_remove_or id (filter (fun kv => is_cancelled s (snd kv)) (reg s)) (buf s)) as [E|E];
      rewrite E; [|reflexivity].
    apply (Hs id). intros Hn. apply Hl. apply lookup_filter_none. exact Hn.
Qed.

Lemma reg_nobuf_run : forall es s, reg_nobuf s -> reg_nobuf (fst (run s es)).
Proof.
  induction es as [|e es IH]; intros s Hs; [exact Hs|].
  cbn [run]. destruct (step s e) as [s1 o1] eqn:Es. destruct (run s1 es) as [s2 o2] eqn:Er. cbn [fst].
  replace s2 with (fst (run s1 es)) by (rewrite Er; reflexivity). apply IH.
  replace s1 with (fst (step s e)) by (rewrite Es; reflexivity). apply reg_nobuf_step. exact Hs.
Qed.

(* register, (cancel / complete), register again while the old entry is still in the table: the
   new handle receives exactly the arrivals that follow, each once *)
Corollary reregistration_over_old_entry (id r : N) (es1 es2 : list ev) :
  fresh_in r es1 -> wf_events id r (Register id r :: es2) ->
  lookup id (reg (fst (run st0 es1))) <> None ->
  deliveries_to r (snd (run st0 (es1 ++ Register id r :: es2))) = peers id es2.
Proof.
  intros Hf Hwf Hl. rewrite (reregistration id r es1 es2 Hf Hwf).
  rewrite (reg_nobuf_run es1 st0); [reflexivity| |exact Hl].
  intros k H. exfalso. apply H. reflexivity.
Qed.
