(* RecoverProofs.v -- C01 at the stage level: what recoverSign reports, that it reports at most
   once, never panics on well-formed contents, and does report once a threshold of valid shares
   is in (whatever junk is mixed in, in whatever order). *)
From Coq Require Import ZArith List Bool Lia.
From DosVerif Require Import Base.Val Base.Field Models.Share Models.Tbls Models.Stages Models.Recover
     Proofs.PolyLemmas Proofs.ShareProofs Proofs.TblsProofs Proofs.StagesProofs.
Import ListNotations.
Local Open Scope Z_scope.

Section RecoverProofs.
Context {F : Type}.
Variable O : Fops F.
Hypothesis L : Flaws O.
Variable nmax : Z.
Hypothesis NL : NodeLaws O nmax.
Variable d0 : bool.
Variable dec : list N -> option F.
Variable hm_of : list N -> F.
Variable pub : list F.
Variables t n : Z.
Hypothesis Hn : n <= nmax.
Hypothesis Hpub : Z.of_nat (length pub) <= t.

Notation step := (recover_step O d0 dec hm_of pub t n).
Notation run := (run_stage O d0 dec hm_of pub t n).

Lemma step_collected col m c' o :
  step col m = (c', o) ->
  c' = col ++ match m with
              | Some m => match m_content m, m_sig m with Some _, Some s => [s] | _, _ => [] end
              | None => [] end.
Proof.
  Ltac fin := let H := fresh in intros H; inversion H; subst; rewrite ?app_nil_r; reflexivity.
  unfold recover_step. destruct m as [[[c|] [s|]]|]; cbn [m_content m_sig]; try fin.
  destruct (Z.of_nat (length (col ++ [s])) <? t); [fin|].
  destruct (recover O d0 dec pub (hm_of c) (col ++ [s]) t n); try fin.
  destruct (feqb O _ _); [destruct (strip c)|]; fin.
Qed.

Lemma step_emit col m c' r sg :
  step col m = (c', Emit r sg) ->
  exists c s, m = Some (mksmsg (Some c) (Some s)) /\
              sg = fmul O (hm_of c) (hd (f0 O) pub) /\ strip c = Ok r.
Proof.
  unfold recover_step. destruct m as [[[c|] [s|]]|]; cbn [m_content m_sig]; try (intros H; inversion H; fail).
  destruct (Z.of_nat (length (col ++ [s])) <? t); [intros H; inversion H|].
  destruct (recover O d0 dec pub (hm_of c) (col ++ [s]) t n) as [sg0| |]; try (intros H; inversion H; fail).
  destruct (feqb O (fmul O (hm_of c) (hd (f0 O) pub)) sg0) eqn:Ev; [|intros H; inversion H].
  destruct (strip c) as [r0| |] eqn:Est; try (intros H; inversion H; fail).
  intros H. inversion H; subst. exists c, s. split; [reflexivity|].
  apply (F_eqb O L) in Ev. split; [symmetry; exact Ev|exact Est].
Qed.

Lemma step_no_panic col m c' :
  (forall m0 c, m = Some m0 -> m_content m0 = Some c -> (20 <= length c)%nat) ->
  step col m <> (c', SPanic).
Proof.
  intros Hlen. unfold recover_step. destruct m as [[[c|] [s|]]|]; cbn [m_content m_sig]; try (intros H; inversion H; fail).
  destruct (Z.of_nat (length (col ++ [s])) <? t); [intros H; inversion H|].
  destruct (recover_cases O L nmax NL d0 dec pub (hm_of c) n (col ++ [s]) t Hn Hpub) as [E|E]; rewrite E.
  - intros H; inversion H.
  - destruct (feqb O _ _); [|intros H; inversion H].
    assert (Hc : (20 <= length c)%nat) by (apply (Hlen (mksmsg (Some c) (Some s)) c); reflexivity).
    unfold strip, addr_len. replace (Nat.ltb (length c) 20) with false by (symmetry; apply Nat.ltb_ge; exact Hc).
    intros H; inversion H.
Qed.

(* since the repair (a content shorter than an address is reported and skipped) no content at all
   can make a step panic *)
Lemma step_never_panics col m c' : step col m <> (c', SPanic).
Proof.
  unfold recover_step. destruct m as [[[c|] [s|]]|]; cbn [m_content m_sig]; try (intros H; inversion H; fail).
  destruct (Z.of_nat (length (col ++ [s])) <? t); [intros H; inversion H|].
  destruct (recover_cases O L nmax NL d0 dec pub (hm_of c) n (col ++ [s]) t Hn Hpub) as [E|E]; rewrite E.
  - intros H; inversion H.
  - destruct (feqb O _ _); [|intros H; inversion H].
    destruct (strip c); intros H; inversion H.
Qed.

(* what a report is: the group signature on a content that some message carried, and the
   content without its last 20 bytes *)
Theorem stage_safety : forall ms col r sg,
  run col ms = Emit r sg ->
  exists c s, In (Some (mksmsg (Some c) (Some s))) ms /\
              sg = fmul O (hm_of c) (hd (f0 O) pub) /\ strip c = Ok r.
Proof.
  induction ms as [|m ms IH]; intros col r sg H; [discriminate|].
  cbn [run_stage] in H. destruct (step col m) as [c' o] eqn:Es.
  destruct o as [|r' sg'|].
  - destruct (IH c' r sg H) as [c [s [Hin Hrest]]]. exists c, s. split; [right; exact Hin|exact Hrest].
  - injection H as -> ->. destruct (step_emit col m c' r sg Es) as [c [s [-> Hrest]]].
    exists c, s. split; [left; reflexivity|exact Hrest].
  - discriminate.
Qed.

(* the reported result followed by the last 20 bytes of the signed content IS the signed content:
   the contract re-appends the sender's address and verifies the signature on that *)
Lemma strip_ok_split c r : strip c = Ok r -> exists a, length a = 20%nat /\ c = r ++ a.
Proof.
  unfold strip, addr_len. destruct (Nat.ltb (length c) 20) eqn:E; [discriminate|].
  intros [= <-]. apply Nat.ltb_ge in E. exists (skipn (length c - 20) c). split.
  - rewrite skipn_length. lia.
  - symmetry. apply firstn_skipn.
Qed.

Theorem report_verifies_on_chain ms col r sg :
  run col ms = Emit r sg ->
  exists c a, length a = 20%nat /\ c = r ++ a /\ sg = fmul O (hm_of c) (hd (f0 O) pub).
Proof.
  intros H. destruct (stage_safety ms col r sg H) as [c [s [_ [Hsg Hst]]]].
  destruct (strip_ok_split c r Hst) as [a [Ha Hc]]. exists c, a. repeat split; assumption.
Qed.

Theorem stage_never_panics : forall ms col, run col ms <> SPanic.
Proof.
  induction ms as [|m ms IH]; intros col; [discriminate|].
  cbn [run_stage]. destruct (step col m) as [c' o] eqn:Es.
  destruct o; [apply IH|discriminate|].
  exfalso. exact (step_never_panics col m c' Es).
Qed.

(* no panic, provided every content is at least an address long *)
Theorem stage_no_panic : forall ms col,
  (forall m c, In (Some m) ms -> m_content m = Some c -> (20 <= length c)%nat) ->
  run col ms <> SPanic.
Proof.
  induction ms as [|m ms IH]; intros col Hlen; [discriminate|].
  cbn [run_stage]. destruct (step col m) as [c' o] eqn:Es.
  destruct o; [|discriminate|].
  - apply IH. intros m0 c0 Hin. apply Hlen. right; exact Hin.
  - exfalso. apply (step_no_panic col m c'); [|exact Es].
    intros m0 c -> Hc. apply (Hlen m0 c); [left; reflexivity|exact Hc].
Qed.

Definition sigs_of (ms : list (option smsg)) : list (list N) :=
  flat_map (fun m => match m with
                     | Some m => match m_content m, m_sig m with Some _, Some s => [s] | _, _ => [] end
                     | None => [] end) ms.

Lemma run_split : forall pre col rest,
  run col (pre ++ rest) = match run col pre with Cont => run (col ++ sigs_of pre) rest | o => o end.
Proof.
  induction pre as [|m pre IH]; intros col rest; cbn [app sigs_of flat_map run_stage].
  - rewrite app_nil_r. reflexivity.
  - destruct (step col m) as [c' o] eqn:Es. destruct o; try reflexivity.
    rewrite IH, (step_collected col m c' Cont Es), <- app_assoc. reflexivity.
Qed.

(* liveness of the stage: once the collected shares plus the arriving one contain valid shares of
   at least t distinct members on the arriving message's content, the stage reports (unless it
   already did) *)
Theorem stage_live (pre post : list (option smsg)) (c0 s0 : list N) (idxs : list Z) :
  (20 <= length c0)%nat ->
  t <= Z.of_nat (length (sigs_of pre ++ [s0])) ->
  NoDup idxs -> t <= Z.of_nat (length idxs) ->
  (forall i, In i idxs -> exists s, In s (sigs_of pre ++ [s0]) /\ valid O dec pub (hm_of c0) n s i) ->
  run [] (pre ++ Some (mksmsg (Some c0) (Some s0)) :: post) <> Cont.
Proof.
  intros Hc0 Hlen Hnd Ht Hcov. rewrite run_split.
  destruct (run [] pre); try discriminate.
  cbn [app run_stage recover_step m_content m_sig].
  replace (Z.of_nat (length (sigs_of pre ++ [s0])) <? t) with false by (symmetry; apply Z.ltb_ge; exact Hlen).
  rewrite (recover_unique O L nmax NL d0 dec pub (hm_of c0) n (sigs_of pre ++ [s0]) t idxs Hn Hpub Hnd Ht Hcov).
  replace (feqb O (fmul O (hm_of c0) (hd (f0 O) pub)) (fmul O (hd (f0 O) pub) (hm_of c0))) with true.
  2:{ symmetry. apply (F_eqb O L). pose proof (F_th O L) as Fth. destruct Fth as [Rth _ _ _]. destruct Rth. apply Rmul_comm. }
  unfold strip, addr_len. replace (Nat.ltb (length c0) 20) with false by (symmetry; apply Nat.ltb_ge; exact Hc0).
  discriminate.
Qed.

End RecoverProofs.
