(* PipesReplicate.v -- a network stays well-formed when any number of copies of an inert goroutine
   is added: a goroutine without channel, WaitGroup or cancel operations whose every select has a
   ctx.Done arm (the per-member retry goroutines that sendToMembers / genDealsAndSend start in a loop
   over the group: the translator emits one of them, the group size is arbitrary). *)
From Coq Require Import List Arith Bool Lia PeanoNat.
From DosVerif Require Import Models.Pipes.
Import ListNotations.

Definition extend (N : net) (p : proc) (k : nat) : net :=
  mknet (procs N ++ repeat p k) (caps N) (closers N) (owed N) (wgs N) (wgfor N) (rkbound N).

Definition inert_node (nd : node) : Prop :=
  match nd with
  | NSel [] (Some _) _ => True
  | NTau (_ :: _) => True
  | NLoop _ _ => True
  | NExit => True
  | _ => False
  end.

Record inert (rkb : nat) (p : proc) : Prop := mkinert {
  in_nonempty : 0 < length (code p);
  in_nodes : forall pc, inert_node (nth pc (code p) NExit);
  in_succ : forall pc k, pc < length (code p) -> In k (succs_of (nth pc (code p) NExit)) -> k < length (code p);
  in_rkb : forall pc, nth pc (rk p) 0 < rkb;
  in_rke : forall pc k, In k (rk_edges (nth pc (code p) NExit)) -> nth k (rk p) 0 < nth pc (rk p) 0;
  in_must : forall pc, nth pc (must p) [] = [];
  in_may : forall pc, nth pc (may p) [] = []
}.

Section Replicate.
Variable N : net.
Variable p : proc.
Variable k : nat.
Hypothesis Hwf : wf N.
Hypothesis Hin : inert (rkbound N) p.

Let N' := extend N p k.
Let n := length (procs N).

Lemma P_old q : q < n \/ n + k <= q -> P N' q = P N q.
Proof.
  intros [H|H]; unfold P, N', extend; cbn [procs].
  - apply app_nth1. exact H.
  - rewrite nth_overflow by (rewrite app_length, repeat_length; fold n; lia).
    rewrite nth_overflow by (fold n; lia). reflexivity.
Qed.

Lemma P_new q : n <= q < n + k -> P N' q = p.
Proof.
  intros H. unfold P, N', extend; cbn [procs]. rewrite app_nth2 by (fold n; lia). fold n.
  assert (Hr : forall (m i : nat), i < m -> nth i (repeat p m) dummy_proc = p).
  { induction m as [|m IH]; intros i Hi; [lia|]. destruct i; cbn; [reflexivity|apply IH; lia]. }
  apply Hr. lia.
Qed.

Lemma case_q q : (q < n \/ n + k <= q) \/ (n <= q < n + k).
Proof. lia. Qed.

Lemma len' : length (procs N') = n + k.
Proof. unfold N', extend; cbn [procs]. rewrite app_length, repeat_length. reflexivity. Qed.

Lemma inert_events pc : events_of (nth pc (code p) NExit) = [].
Proof. pose proof (in_nodes _ _ Hin pc) as H. destruct (nth pc (code p) NExit) as [[|a l] [d|] df|[|x l]|c k0|w k0|w k0|k0|kb ke|]; cbn in *; try contradiction; reflexivity. Qed.

Theorem extend_wf : wf N'.
Proof.
  constructor.
  - (* nprocs *) intros c q Hc. change (closer N' c) with (closer N c) in Hc.
    pose proof (wf_nprocs N Hwf c q Hc). rewrite len'. fold n in H. lia.
  - intros c Ho. exact (wf_owed N Hwf c Ho).
  - intros w m Hm. change (members N' w) with (members N w) in Hm.
    pose proof (wf_members_lt N Hwf w m Hm). rewrite len'. fold n in H. lia.
  - intros w. exact (wf_members_nodup N Hwf w).
  - (* code nonempty *)
    intros q Hq. rewrite len' in Hq. destruct (case_q q) as [Ho|Hn].
    + rewrite (P_old q Ho). destruct Ho as [Ho|Ho]; [|lia]. apply (wf_code_nonempty N Hwf). exact Ho.
    + rewrite (P_new q Hn). apply (in_nonempty _ _ Hin).
  - (* successor range *)
    intros q pc k0 Hpc Hk. unfold node_at in *. destruct (case_q q) as [Ho|Hn].
    + rewrite (P_old q Ho) in *. apply (wf_succ_range N Hwf q pc k0 Hpc Hk).
    + rewrite (P_new q Hn) in *. apply (in_succ _ _ Hin pc k0 Hpc Hk).
  - (* tau nonempty *)
    intros q pc. unfold node_at. destruct (case_q q) as [Ho|Hn].
    + rewrite (P_old q Ho). apply (wf_tau_nonempty N Hwf q pc).
    + rewrite (P_new q Hn). pose proof (in_nodes _ _ Hin pc) as H. intros E. rewrite E in H. exact H.
  - (* rk bound *)
    intros q pc. unfold rk_at. change (rkbound N') with (rkbound N). destruct (case_q q) as [Ho|Hn].
    + rewrite (P_old q Ho). apply (wf_rk_bound N Hwf q pc).
    + rewrite (P_new q Hn). apply (in_rkb _ _ Hin).
  - (* rk edges *)
    intros q pc k0. unfold node_at, rk_at. destruct (case_q q) as [Ho|Hn].
    + rewrite (P_old q Ho). apply (wf_rk_edges N Hwf q pc k0).
    + rewrite (P_new q Hn). apply (in_rke _ _ Hin).
  - (* must 0 *)
    intros q. unfold must_at. destruct (case_q q) as [Ho|Hn].
    + rewrite (P_old q Ho). apply (wf_must0 N Hwf q).
    + rewrite (P_new q Hn). apply (in_must _ _ Hin).
  - (* must edges *)
    intros q pc k0. unfold node_at, must_at. destruct (case_q q) as [Ho|Hn].
    + rewrite (P_old q Ho). apply (wf_must_edges N Hwf q pc k0).
    + rewrite (P_new q Hn). intros _. rewrite (in_must _ _ Hin). apply incl_nil_l.
  - (* may edges *)
    intros q pc k0. unfold node_at, may_at. destruct (case_q q) as [Ho|Hn].
    + rewrite (P_old q Ho). apply (wf_may_edges N Hwf q pc k0).
    + rewrite (P_new q Hn). intros _. rewrite inert_events, !(in_may _ _ Hin). apply incl_refl.
  - (* await: an inert goroutine has no select without ctx.Done *)
    intros q pc arms df. unfold node_at. destruct (case_q q) as [Ho|Hn].
    + rewrite (P_old q Ho). intros Hnd. destruct (wf_await N Hwf q pc arms df Hnd) as [H1 H2].
      split; [exact H1|]. intros a Ha. destruct (H2 a Ha) as [c [kv [kc [r [Ea [Hc [Hw Hr]]]]]]].
      exists c, kv, kc, r. repeat split; auto.
      rewrite (P_old r) by (left; apply (wf_nprocs N Hwf c r Hc)). exact Hr.
    + rewrite (P_new q Hn). intros Hnd. pose proof (in_nodes _ _ Hin pc) as Hi. rewrite Hnd in Hi.
      destruct arms; contradiction.
  - (* close *)
    intros q pc c k0. unfold node_at, must_at, may_at. destruct (case_q q) as [Ho|Hn].
    + rewrite (P_old q Ho). apply (wf_close N Hwf q pc c k0).
    + rewrite (P_new q Hn). intros Hnd. pose proof (in_nodes _ _ Hin pc) as Hi. rewrite Hnd in Hi. contradiction.
  - (* exit *)
    intros q pc Hpc. unfold node_at, must_at. destruct (case_q q) as [Ho|Hn].
    + rewrite (P_old q Ho) in *. apply (wf_exit N Hwf q pc Hpc).
    + intros _. split.
      * intros c Hc _. pose proof (wf_nprocs N Hwf c q Hc). fold n in H. lia.
      * intros w Hm. pose proof (wf_members_lt N Hwf w q Hm). fold n in H. lia.
  - (* wg done *)
    intros q pc w k0. unfold node_at, may_at. destruct (case_q q) as [Ho|Hn].
    + rewrite (P_old q Ho). apply (wf_wgdone N Hwf q pc w k0).
    + rewrite (P_new q Hn). intros Hnd. pose proof (in_nodes _ _ Hin pc) as Hi. rewrite Hnd in Hi. contradiction.
  - (* wg wait *)
    intros q pc w k0. unfold node_at. destruct (case_q q) as [Ho|Hn].
    + rewrite (P_old q Ho). intros Hnd m Hm. pose proof (wf_wgwait N Hwf q pc w k0 Hnd m Hm) as Hr.
      rewrite (P_old m) by (left; apply (wf_members_lt N Hwf w m Hm)). exact Hr.
    + rewrite (P_new q Hn). intros Hnd. pose proof (in_nodes _ _ Hin pc) as Hi. rewrite Hnd in Hi. contradiction.
  - (* send *)
    intros q pc arms dn df c k0. unfold node_at, may_at. destruct (case_q q) as [Ho|Hn].
    + rewrite (P_old q Ho). apply (wf_send N Hwf q pc arms dn df c k0).
    + rewrite (P_new q Hn). intros Hnd Ha. pose proof (in_nodes _ _ Hin pc) as Hi. rewrite Hnd in Hi.
      destruct arms; [contradiction|contradiction].
Qed.
End Replicate.

(* a decidable version of [inert] *)
Definition inert_nodeb (nd : node) : bool :=
  match nd with
  | NSel [] (Some _) _ => true
  | NTau (_ :: _) => true
  | NLoop _ _ => true
  | NExit => true
  | _ => false
  end.

Definition inertb (rkb : nat) (p : proc) : bool :=
  (0 <? length (code p))
  && forallb inert_nodeb (code p)
  && forallb (fun pc => forallb (fun k => k <? length (code p)) (succs_of (nth pc (code p) NExit))) (seq 0 (length (code p)))
  && forallb (fun r => r <? rkb) (rk p) && (0 <? rkb)
  && forallb (fun pc => forallb (fun k => nth k (rk p) 0 <? nth pc (rk p) 0) (rk_edges (nth pc (code p) NExit))) (seq 0 (length (code p)))
  && forallb (fun l => match l with [] => true | _ => false end) (must p)
  && forallb (fun l => match l with [] => true | _ => false end) (may p).

Lemma nth_forallb_nil {A} (l : list (list A)) pc :
  forallb (fun x => match x with [] => true | _ => false end) l = true -> nth pc l [] = [].
Proof.
  intros H. destruct (le_lt_dec (length l) pc) as [Hl|Hl]; [apply nth_overflow; exact Hl|].
  rewrite forallb_forall in H. specialize (H (nth pc l []) (nth_In l [] Hl)).
  destruct (nth pc l []); [reflexivity|discriminate].
Qed.

Lemma inertb_sound rkb p : inertb rkb p = true -> inert rkb p.
Proof.
  unfold inertb. intros H.
  apply andb_prop in H. destruct H as [H Hmay].
  apply andb_prop in H. destruct H as [H Hmust].
  apply andb_prop in H. destruct H as [H Hrke].
  apply andb_prop in H. destruct H as [H Hpos].
  apply andb_prop in H. destruct H as [H Hrkb].
  apply andb_prop in H. destruct H as [H Hsucc].
  apply andb_prop in H. destruct H as [Hlen Hnodes].
  constructor.
  - apply Nat.ltb_lt. exact Hlen.
  - intros pc. destruct (le_lt_dec (length (code p)) pc) as [Hl|Hl].
    + rewrite nth_overflow by exact Hl. exact I.
    + rewrite forallb_forall in Hnodes. specialize (Hnodes _ (nth_In (code p) NExit Hl)).
      destruct (nth pc (code p) NExit) as [[|a l] [d|] df|[|x l]|c k0|w k0|w k0|k0|kb ke|]; cbn in *; try discriminate; exact I.
  - intros pc k0 Hpc Hk. rewrite forallb_forall in Hsucc. specialize (Hsucc pc). rewrite in_seq in Hsucc.
    specialize (Hsucc (conj (Nat.le_0_l _) Hpc)). rewrite forallb_forall in Hsucc. apply Nat.ltb_lt. apply Hsucc; exact Hk.
  - intros pc. apply Nat.ltb_lt in Hpos. destruct (le_lt_dec (length (rk p)) pc) as [Hl|Hl].
    + rewrite nth_overflow by exact Hl. exact Hpos.
    + rewrite forallb_forall in Hrkb. apply Nat.ltb_lt. apply Hrkb. apply nth_In. exact Hl.
  - intros pc k0 Hk. destruct (le_lt_dec (length (code p)) pc) as [Hl|Hl].
    + rewrite (nth_overflow (code p) NExit Hl) in Hk. contradiction.
    + rewrite forallb_forall in Hrke. specialize (Hrke pc). rewrite in_seq in Hrke.
      specialize (Hrke (conj (Nat.le_0_l _) Hl)). rewrite forallb_forall in Hrke. apply Nat.ltb_lt. apply Hrke; exact Hk.
  - intros pc. apply nth_forallb_nil. exact Hmust.
  - intros pc. apply nth_forallb_nil. exact Hmay.
Qed.
