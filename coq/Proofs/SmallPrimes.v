(* SmallPrimes.v -- primality of the small moduli used in non-vacuity examples, by a finite gcd sweep *)
From Coq Require Import ZArith Znumtheory List Bool Lia.
Import ListNotations.
Local Open Scope Z_scope.

Lemma prime_by_sweep (p : Z) :
  1 < p -> forallb (fun k => Z.gcd (Z.of_nat k) p =? 1) (seq 1 (Z.to_nat p - 1)) = true -> prime p.
Proof.
  intros Hp H. apply prime_intro; [exact Hp|]. intros m Hm.
  apply Zgcd_1_rel_prime. rewrite forallb_forall in H.
  specialize (H (Z.to_nat m)). rewrite Z2Nat.id in H by lia. apply Z.eqb_eq. apply H. apply in_seq. lia.
Qed.

Lemma prime_101 : prime 101.
Proof. apply prime_by_sweep; [lia|vm_compute; reflexivity]. Qed.
