From Coq Require Import ZArith List Bool Lia.
From DosVerif Require Import Base.Val Models.Dispatch.
Import ListNotations.
Open Scope Z_scope.

Lemma lookupz_in {A} k (l : list (Z * A)) v : lookupz k l = Some v -> In (k, v) l.
Proof.
  induction l as [|[k' v'] t IH]; cbn; [discriminate|].
  destruct (k =? k') eqn:E; intros H.
  - apply Z.eqb_eq in E. inversion H; subst. left; reflexivity.
  - right. apply IH; exact H.
Qed.

Lemma lookupz_none_notin {A} k (l : list (Z * A)) : lookupz k l = None -> ~ In k (map fst l).
Proof.
  induction l as [|[k' v'] t IH]; cbn; [tauto|].
  destruct (k =? k') eqn:E; [discriminate|]. intros H [Hx|Hx]; [lia|exact (IH H Hx)].
Qed.

Lemma in_removez {A} k (l : list (Z * A)) x : In x (removez k l) -> In x l.
Proof.
  induction l as [|[k' v'] t IH]; cbn; [tauto|].
  destruct (k =? k'); [intros H; right; apply IH; exact H|].
  intros [H|H]; [left; exact H|right; apply IH; exact H].
Qed.

Lemma nodup_snoc {A} (l : list A) x : NoDup l -> ~ In x l -> NoDup (l ++ [x]).
Proof.
  induction l as [|a t IH]; cbn; intros Hn Hx; [repeat constructor; tauto|].
  inversion Hn; subst. constructor.
  - intros Hin. apply in_app_or in Hin. destruct Hin as [Hin|[Hin|[]]]; [contradiction|]. subst. apply Hx; left; reflexivity.
  - apply IH; [assumption|]. intros Hin. apply Hx; right; exact Hin.
Qed.

Lemma complete_nodup r x ret : NoDup (map fst ret) -> NoDup (map fst (complete r x ret)).
Proof.
  intros H. unfold complete. destruct (lookupz r ret) eqn:E; [exact H|].
  rewrite map_app. cbn. apply lookupz_none_notin in E.
  apply nodup_snoc; assumption.
Qed.

Lemma complete_in r x ret q y : In (q, y) (complete r x ret) -> In (q, y) ret \/ (q = r /\ y = x).
Proof.
  unfold complete. destruct (lookupz r ret); [tauto|].
  intros H. apply in_app_or in H. destruct H as [H|[H|[]]]; [tauto|]. inversion H; tauto.
Qed.

Lemma complete_keeps r x ret q y : In (q, y) ret -> In (q, y) (complete r x ret).
Proof. unfold complete. destruct (lookupz r ret); [tauto|]. intros H. apply in_or_app; tauto. Qed.

Lemma fold_complete_nodup (tbl : list (Z * Z)) ret :
  NoDup (map fst ret) ->
  NoDup (map fst (fold_left (fun ret nr => complete (snd nr) RConnErr ret) tbl ret)).
Proof. revert ret; induction tbl as [|a t IH]; intros ret H; cbn; [exact H|]. apply IH, complete_nodup, H. Qed.

Lemma fold_complete_in (tbl : list (Z * Z)) ret q y :
  In (q, y) (fold_left (fun ret nr => complete (snd nr) RConnErr ret) tbl ret) ->
  In (q, y) ret \/ y = RConnErr.
Proof.
  revert ret; induction tbl as [|a t IH]; intros ret H; cbn in H; [tauto|].
  apply IH in H. destruct H as [H|H]; [|tauto]. apply complete_in in H. tauto.
Qed.

Record DInv (s : dstate) : Prop := mkdinv {
  di_table : forall n r, In (n, r) (table s) -> In (r, n) (wire s);
  di_next : 0 <= next s;
  di_wire : forall r n, In (r, n) (wire s) -> 0 <= n < next s;
  di_nonces : NoDup (map snd (wire s));
  di_once : NoDup (map fst (returned s))
}.

Lemma dinv0 : DInv d0.
Proof. constructor; cbn; try tauto; try lia; constructor. Qed.

Lemma dinv_step s e : DInv s -> DInv (dstep s e).
Proof.
  intros I. destruct e as [r|n m|r|]; cbn [dstep].
  - destruct (alive s); [|exact I]. constructor; cbn.
    + intros n r0 [H|H]; [inversion H; subst; apply in_or_app; right; left; reflexivity|].
      apply in_or_app; left. apply (di_table s I); exact H.
    + pose proof (di_next s I). lia.
    + intros r0 n H. apply in_app_or in H. destruct H as [H|[H|[]]].
      * pose proof (di_wire s I r0 n H). lia.
      * inversion H; subst. pose proof (di_next s I). lia.
    + rewrite map_app. cbn. apply nodup_snoc; [apply (di_nonces s I)|].
      intros Hy. apply in_map_iff in Hy. destruct Hy as [[r1 n1] [He Hin]]. cbn in He. subst.
      pose proof (di_wire s I r1 (next s) Hin). lia.
    + apply (di_once s I).
  - destruct (alive s); [|exact I]. destruct (lookupz n (table s)) as [r|] eqn:El; [|exact I].
    constructor; cbn.
    + intros n0 r0 H. apply in_removez in H. apply (di_table s I); exact H.
    + apply (di_next s I).
    + apply (di_wire s I).
    + apply (di_nonces s I).
    + apply complete_nodup, (di_once s I).
  - constructor; cbn; try apply I. apply complete_nodup, (di_once s I).
  - destruct (alive s); [|exact I]. constructor; cbn; try apply I; try tauto.
    apply fold_complete_nodup, (di_once s I).
Qed.

Lemma dinv_run es : DInv (drun es).
Proof.
  unfold drun. assert (H : forall s, DInv s -> DInv (fold_left dstep es s)).
  { induction es as [|e t IH]; intros s I; cbn; [exact I|]. apply IH, dinv_step, I. }
  apply H, dinv0.
Qed.

(* a request call returns at most once *)
Theorem returns_at_most_once es : NoDup (map fst (returned (drun es))).
Proof. apply (di_once _ (dinv_run es)). Qed.

(* nonces are distinct per connection *)
Theorem nonces_distinct es : NoDup (map snd (wire (drun es))).
Proof. apply (di_nonces _ (dinv_run es)). Qed.

(* a request that returns a reply returns the content of a reply frame that carried ITS nonce and
   arrived after it was sent *)
Theorem own_reply es : forall r m,
  In (r, ROk m) (returned (drun es)) ->
  exists n es1 es2, es = es1 ++ DReply n m :: es2 /\ In (r, n) (wire (drun es1)).
Proof.
  induction es as [|e es IH] using rev_ind; intros r m H; [cbn in H; contradiction|].
  unfold drun in H. rewrite fold_left_app in H. cbn [fold_left] in H. fold (drun es) in H.
  assert (Hold : In (r, ROk m) (returned (drun es)) ->
                 exists n es1 es2, es ++ [e] = es1 ++ DReply n m :: es2 /\ In (r, n) (wire (drun es1))).
  { intros Ho. destruct (IH r m Ho) as [n [es1 [es2 [He Hw]]]].
    exists n, es1, (es2 ++ [e]). split; [rewrite He, <- app_assoc; reflexivity|exact Hw]. }
  destruct e as [r0|n m0|r0|]; cbn [dstep] in H.
  - destruct (alive (drun es)); cbn in H; apply Hold; exact H.
  - destruct (alive (drun es)); [|apply Hold; exact H].
    destruct (lookupz n (table (drun es))) as [r1|] eqn:El; [|apply Hold; exact H].
    cbn in H. apply complete_in in H. destruct H as [H|[Hr Hm]]; [apply Hold; exact H|].
    inversion Hm; subst. exists n, es, []. split; [reflexivity|].
    apply lookupz_in in El. apply (di_table _ (dinv_run es)); exact El.
  - cbn in H. apply complete_in in H. destruct H as [H|[_ Hx]]; [apply Hold; exact H|discriminate].
  - destruct (alive (drun es)); [|apply Hold; exact H]. cbn in H.
    apply fold_complete_in in H. destruct H as [H|Hx]; [apply Hold; exact H|discriminate].
Qed.

(* two different requests never share a nonce: "never another request's reply" *)
Theorem reply_not_crossed es r1 r2 n :
  In (r1, n) (wire (drun es)) -> In (r2, n) (wire (drun es)) -> r1 = r2.
Proof.
  intros H1 H2. pose proof (nonces_distinct es) as Hn.
  induction (wire (drun es)) as [|[r0 n0] t IH]; [contradiction|].
  cbn in Hn. inversion Hn; subst.
  destruct H1 as [H1|H1]; destruct H2 as [H2|H2].
  - congruence.
  - inversion H1; subst. exfalso. apply H3. apply in_map_iff. exists (r2, n). auto.
  - inversion H2; subst. exfalso. apply H3. apply in_map_iff. exists (r1, n). auto.
  - apply IH; assumption.
Qed.

(* when the connection goes away every request still waiting returns (with an error) *)
Lemma fold_complete_covers (tbl : list (Z * Z)) : forall ret n r,
  In (n, r) tbl -> exists x, In (r, x) (fold_left (fun ret nr => complete (snd nr) RConnErr ret) tbl ret).
Proof.
  induction tbl as [|a t IH]; intros ret n r H; [contradiction|]. cbn.
  destruct H as [H|H].
  - subst a. cbn [snd].
    assert (Hc : exists x, In (r, x) (complete r RConnErr ret)).
    { unfold complete. destruct (lookupz r ret) as [x|] eqn:E.
      - exists x. apply lookupz_in; exact E.
      - exists RConnErr. apply in_or_app; right; left; reflexivity. }
    destruct Hc as [x Hx]. exists x.
    assert (Hk : forall (tb : list (Z * Z)) l, In (r, x) l ->
                 In (r, x) (fold_left (fun ret nr => complete (snd nr) RConnErr ret) tb l)).
    { induction tb as [|b tb IHt]; intros l Hl; cbn; [exact Hl|]. apply IHt, complete_keeps, Hl. }
    apply Hk. exact Hx.
  - apply (IH _ n r H).
Qed.

Theorem conn_done_fails_pending es n r :
  alive (drun es) = true -> In (n, r) (table (drun es)) ->
  exists x, In (r, x) (returned (drun (es ++ [DConnDone]))).
Proof.
  intros Ha Hin. unfold drun. rewrite fold_left_app. cbn [fold_left]. fold (drun es).
  cbn [dstep]. rewrite Ha. cbn. eapply fold_complete_covers; exact Hin.
Qed.

(* a cancelled request returns *)
Theorem cancel_returns es r : exists x, In (r, x) (returned (drun (es ++ [DCancel r]))).
Proof.
  unfold drun. rewrite fold_left_app. cbn [fold_left]. fold (drun es). cbn.
  unfold complete. destruct (lookupz r (returned (drun es))) as [x|] eqn:E.
  - exists x. apply lookupz_in; exact E.
  - exists RCancelled. apply in_or_app; right; left; reflexivity.
Qed.
