(* BnCodecProofs.v -- C11: the wire codecs of Models/Bn.v round-trip, have fixed lengths, are
   injective on affine points, and decode only points that pass the curve (and subgroup) tests. *)
From Coq Require Import ZArith List Bool Lia.
From DosVerif Require Import Base.Val Base.Field Models.Bn.
Import ListNotations.
Local Open Scope Z_scope.

(* ---------------------------------------------------------------- big-endian bytes *)

Lemma be_bytes_length k n : length (be_bytes k n) = k.
Proof. revert n; induction k as [|k IH]; intros n; [reflexivity|]. cbn [be_bytes]. rewrite app_length, IH. cbn. lia. Qed.

Lemma be_val_app l b : be_val (l ++ [b]) = be_val l * 256 + Z.of_N b.
Proof. unfold be_val. rewrite fold_left_app. reflexivity. Qed.

Lemma be_val_bytes k n : 0 <= n -> be_val (be_bytes k n) = n mod 256 ^ Z.of_nat k.
Proof.
  revert n; induction k as [|k IH]; intros n Hn.
  - cbn. rewrite Z.mod_1_r. reflexivity.
  - cbn [be_bytes]. rewrite be_val_app, IH by (apply Z.div_pos; lia).
    rewrite Z2N.id by (apply Z.mod_pos_bound; lia).
    rewrite Nat2Z.inj_succ, Z.pow_succ_r by lia.
    rewrite (Z.rem_mul_r n 256 (256 ^ Z.of_nat k)) by (try lia; apply Z.pow_pos_nonneg; lia). lia.
Qed.

Lemma be_val_bytes32 n : 0 <= n < 2 ^ 256 -> be_val (be_bytes 32 n) = n.
Proof.
  intros H. rewrite be_val_bytes by lia. change (256 ^ Z.of_nat 32) with (2 ^ 256). apply Z.mod_small. exact H.
Qed.

Lemma be_bytes32_inj a b : 0 <= a < 2 ^ 256 -> 0 <= b < 2 ^ 256 -> be_bytes 32 a = be_bytes 32 b -> a = b.
Proof. intros Ha Hb E. rewrite <- (be_val_bytes32 a Ha), <- (be_val_bytes32 b Hb), E. reflexivity. Qed.

(* ---------------------------------------------------------------- F_p elements *)

Lemma p_pos : 0 < bn_p. Proof. reflexivity. Qed.
Lemma p_lt : bn_p < 2 ^ 256. Proof. reflexivity. Qed.

Lemma fp_eq (a b : Fp) : zv a = zv b -> a = b.
Proof.
  destruct a as [x px], b as [y py]; cbn. intros ->. f_equal. apply Eqdep_dec.UIP_dec. apply bool_dec.
Qed.

Lemma fp_range (a : Fp) : 0 <= zv a < 2 ^ 256.
Proof.
  destruct a as [x px]; cbn. apply Z.eqb_eq in px. rewrite <- px.
  pose proof (Z.mod_pos_bound x bn_p p_pos). pose proof p_lt. lia.
Qed.

Lemma fp_of_zv (a : Fp) : fp_of (zv a) = a.
Proof. apply fp_eq. cbn. destruct a as [x px]; cbn. apply Z.eqb_eq in px. exact px. Qed.

Lemma fp_eqb_iff (a b : Fp) : feqb fp_ops a b = true <-> a = b.
Proof. cbn. rewrite Z.eqb_eq. split; [apply fp_eq|intros ->; reflexivity]. Qed.

Lemma fp_word (a : Fp) : fp_of (be_val (be_bytes 32 (zv a))) = a.
Proof. rewrite be_val_bytes32 by apply fp_range. apply fp_of_zv. Qed.

(* ---------------------------------------------------------------- G1 *)

Lemma firstn_app_exact {A} (a b : list A) n : length a = n -> firstn n (a ++ b) = a.
Proof. intros <-. rewrite firstn_app, Nat.sub_diag, firstn_all. cbn. apply app_nil_r. Qed.
Lemma skipn_app_exact {A} (a b : list A) n : length a = n -> skipn n (a ++ b) = b.
Proof. intros <-. rewrite skipn_app, Nat.sub_diag, skipn_all. reflexivity. Qed.

Definition g1_affine (a : jac (K:=Fp)) : Prop := jz a = f1 fp_ops \/ a = jac_inf fp_ops.

Lemma make_affine_is_affine (a : jac (K:=Fp)) : g1_affine (make_affine fp_ops a).
Proof.
  unfold make_affine. destruct (feqb fp_ops (jz a) (f1 fp_ops)) eqn:E1.
  - left. apply fp_eqb_iff. exact E1.
  - destruct (feqb fp_ops (jz a) (f0 fp_ops)); [right; reflexivity|left; reflexivity].
Qed.

Lemma make_affine_idem (a : jac (K:=Fp)) : make_affine fp_ops (make_affine fp_ops a) = make_affine fp_ops a.
Proof.
  destruct (make_affine_is_affine a) as [H|H].
  - unfold make_affine at 1. rewrite H. replace (feqb fp_ops (f1 fp_ops) (f1 fp_ops)) with true by reflexivity. reflexivity.
  - rewrite H. reflexivity.
Qed.

(* encode-then-decode gives back the (affine form of the) point, for every point of the curve *)
Theorem g1_roundtrip (a : jac (K:=Fp)) :
  g1_on_curve a = true -> g1_unmarshal (g1_marshal a) = Some (make_affine fp_ops a).
Proof.
  intros Hc. unfold g1_marshal. set (m := make_affine fp_ops a).
  assert (Hcm : g1_on_curve m = true).
  { unfold g1_on_curve, on_curve_affine in *. unfold m. rewrite make_affine_idem. exact Hc. }
  destruct (is_inf fp_ops m) eqn:Ei.
  - (* the point at infinity: 64 zero bytes *)
    assert (Hm : m = jac_inf fp_ops).
    { destruct (make_affine_is_affine a) as [H|H]; [|exact H]. fold m in H.
      unfold is_inf in Ei. rewrite H in Ei. discriminate. }
    rewrite Hm. reflexivity.
  - assert (Hz : jz m = f1 fp_ops).
    { destruct (make_affine_is_affine a) as [H|H]; [exact H|]. fold m in H. rewrite H in Ei. discriminate. }
    unfold g1_unmarshal. rewrite app_length, !be_bytes_length. cbn [Nat.add Nat.ltb Nat.leb].
    rewrite (firstn_app_exact _ _ 32 (be_bytes_length 32 _)), (skipn_app_exact _ _ 32 (be_bytes_length 32 _)).
    rewrite firstn_all2 by (rewrite be_bytes_length; lia).
    rewrite !fp_word.
    assert (Hpt : mkjac (jx m) (jy m) (f1 fp_ops) = m) by (destruct m as [x y z]; cbn in *; rewrite Hz; reflexivity).
    destruct (feqb fp_ops (jx m) (f0 fp_ops) && feqb fp_ops (jy m) (f0 fp_ops)) eqn:E0.
    + (* (0,0) is not on the curve *)
      exfalso. apply andb_true_iff in E0. destruct E0 as [Ex Ey].
      apply fp_eqb_iff in Ex, Ey.
      assert (Hm2 : make_affine fp_ops m = m) by (unfold m; apply make_affine_idem).
      unfold g1_on_curve, on_curve_affine in Hcm. rewrite Hm2 in Hcm.
      rewrite Ei in Hcm. rewrite Ex, Ey in Hcm. vm_compute in Hcm. discriminate.
    + rewrite Hpt, Hcm. reflexivity.
Qed.

Theorem g1_length (a : jac (K:=Fp)) : length (g1_marshal a) = 64%nat.
Proof.
  unfold g1_marshal. destruct (is_inf fp_ops (make_affine fp_ops a)); [apply repeat_length|].
  rewrite app_length, !be_bytes_length. reflexivity.
Qed.

(* distinct affine points have distinct encodings *)
Theorem g1_injective (a b : jac (K:=Fp)) :
  g1_on_curve a = true -> g1_on_curve b = true ->
  g1_marshal a = g1_marshal b -> make_affine fp_ops a = make_affine fp_ops b.
Proof.
  intros Ha Hb E. pose proof (g1_roundtrip a Ha) as Ra. pose proof (g1_roundtrip b Hb) as Rb.
  rewrite E in Ra. congruence.
Qed.

(* decoding: too short is an error; what decodes is on the curve *)
Theorem g1_short (buf : list N) : (length buf < 64)%nat -> g1_unmarshal buf = None.
Proof. intros H. unfold g1_unmarshal. apply Nat.ltb_lt in H. rewrite H. reflexivity. Qed.

Theorem g1_decoded_on_curve (buf : list N) (a : jac (K:=Fp)) : g1_unmarshal buf = Some a -> g1_on_curve a = true.
Proof.
  unfold g1_unmarshal. destruct (Nat.ltb (length buf) 64); [discriminate|].
  match goal with |- context [if g1_on_curve ?pt then _ else _] => destruct (g1_on_curve pt) eqn:E end; [|discriminate].
  intros [= <-]. exact E.
Qed.

(* ---------------------------------------------------------------- G2 *)

Theorem g2_length (a : jac (K:=Fp2)) :
  is_inf fp2o (make_affine fp2o a) = false -> length (g2_marshal a) = 129%nat.
Proof.
  intros H. unfold g2_marshal. rewrite H. cbn [app length]. rewrite !app_length, !be_bytes_length. reflexivity.
Qed.

Theorem g2_short (buf : list N) : (length buf < 129)%nat -> hd 0%N buf <> 0%N -> g2_unmarshal buf = None.
Proof.
  intros H Hh. unfold g2_unmarshal. destruct buf as [|b rest]; [reflexivity|]. cbn [hd] in Hh.
  destruct b as [|p]; [congruence|]. destruct p; try reflexivity.
  apply Nat.ltb_lt in H. rewrite H. reflexivity.
Qed.

(* what decodes is the identity or a point that passed the curve equation AND [q]P = O *)
Theorem g2_decoded_in_subgroup (buf : list N) (a : jac (K:=Fp2)) :
  g2_unmarshal buf = Some a ->
  a = mkjac (f0 fp2o) (f1 fp2o) (f0 fp2o) \/ g2_on_curve a = true.
Proof.
  unfold g2_unmarshal. destruct buf as [|b rest]; [discriminate|].
  destruct b as [|p]; [intros [= <-]; left; reflexivity|].
  destruct p; try discriminate.
  destruct (Nat.ltb (length (1%N :: rest)) 129); [discriminate|].
  match goal with |- context [if ?c then Some _ else _] => destruct c end; [intros [= <-]; left; reflexivity|].
  match goal with |- context [if g2_on_curve ?pt then _ else _] => destruct (g2_on_curve pt) eqn:E end; [|discriminate].
  intros [= <-]. right. exact E.
Qed.

Theorem g2_on_curve_means_subgroup (a : jac (K:=Fp2)) :
  g2_on_curve a = true ->
  is_inf fp2o (make_affine fp2o a) = true \/
  (on_curve_affine fp2o g2_b (make_affine fp2o a) = true /\
   is_inf fp2o (g2_mul (make_affine fp2o a) bn_q) = true).
Proof.
  unfold g2_on_curve. destruct (is_inf fp2o (make_affine fp2o a)); [left; reflexivity|].
  destruct (on_curve_affine fp2o g2_b (make_affine fp2o a)); [|discriminate].
  intros H. right. split; [reflexivity|exact H].
Qed.

(* ---------------------------------------------------------------- scalars *)

Lemma q_pos : 0 < bn_q. Proof. reflexivity. Qed.
Lemma q_lt : bn_q < 2 ^ 256. Proof. reflexivity. Qed.

Theorem scalar_roundtrip (k : Z) : scalar_unmarshal (scalar_marshal k) = Some (k mod bn_q).
Proof.
  unfold scalar_unmarshal, scalar_marshal. rewrite be_bytes_length. cbn [Nat.eqb negb].
  pose proof (Z.mod_pos_bound k bn_q q_pos) as Hk. pose proof q_lt.
  rewrite be_val_bytes32 by lia.
  replace (k mod bn_q <? bn_q) with true by (symmetry; apply Z.ltb_lt; lia). reflexivity.
Qed.

Theorem scalar_decoded_in_range (buf : list N) (v : Z) :
  scalar_unmarshal buf = Some v -> length buf = 32%nat /\ v < bn_q.
Proof.
  unfold scalar_unmarshal. destruct (Nat.eqb (length buf) 32) eqn:E; cbn [negb]; [|discriminate].
  destruct (be_val buf <? bn_q) eqn:E2; [|discriminate]. intros [= <-].
  apply Nat.eqb_eq in E. apply Z.ltb_lt in E2. split; assumption.
Qed.

Theorem scalar_length (k : Z) : length (scalar_marshal k) = 32%nat.
Proof. apply be_bytes_length. Qed.
