(* EdProofs.v -- C20: the point formulas of ge.go compute the twisted Edwards addition law
   -x^2 + y^2 = 1 + d x^2 y^2 on affine coordinates, over ANY field of characteristic other than
   two; the result depends on the ELEMENTS the operands represent, not on their projective
   representations.  The constants read from const.go satisfy their defining equations. *)
From Coq Require Import ZArith List Bool Field.
From DosVerif Require Import Base.Val Base.Field Gen.EdConsts Models.Ed Proofs.PolyLemmas.
Import ListNotations.

Section EdLaws.
Context {K : Type}.
Variable O : Fops K.
Hypothesis L : Flaws O.
Variable d : K.
Notation "0" := (f0 O). Notation "1" := (f1 O).
Infix "+" := (fadd O). Infix "*" := (fmul O). Infix "-" := (fsub O).
Notation "- x" := (fopp O x). Notation "/ x" := (finv O x).
Add Field Ke : (Fth O L).

(* an extended point is well formed when Z is invertible and T = XY/Z *)
Definition ext_ok (p : ext (K:=K)) : Prop := eZ p <> 0 /\ eT p * eZ p = eX p * eY p.

Definition on_curve (p : ext (K:=K)) : Prop :=
  let x := ax O p in let y := ay O p in y * y - x * x = 1 + d * x * x * y * y.

Lemma t_of (p : ext (K:=K)) : ext_ok p -> eT p = eX p * eY p * / eZ p.
Proof.
  intros [Hz Ht]. assert (E : eT p = eT p * eZ p * / eZ p) by (field; exact Hz).
  rewrite E, Ht. reflexivity.
Qed.

Lemma two_nz_mul a : 1 + 1 <> 0 -> a <> 0 -> (1 + 1) * a <> 0.
Proof. intros H2 Ha E. destruct (mul_eq_0 O L _ _ E); contradiction. Qed.

Lemma mul_nz a b : a <> 0 -> b <> 0 -> a * b <> 0.
Proof. intros Ha Hb E. destruct (mul_eq_0 O L _ _ E); contradiction. Qed.

(* point.Add: ToCached, completed Add, ToExtended *)
Theorem pt_add_spec (p q : ext (K:=K)) :
  1 + 1 <> 0 -> ext_ok p -> ext_ok q ->
  let x1 := ax O p in let y1 := ay O p in let x2 := ax O q in let y2 := ay O q in
  let D := d * x1 * x2 * y1 * y2 in
  1 + D <> 0 -> 1 - D <> 0 ->
  let r := pt_add O (d + d) p q in
  ext_ok r /\ ax O r = (x1 * y2 + y1 * x2) * / (1 + D) /\ ay O r = (y1 * y2 + x1 * x2) * / (1 - D).
Proof.
  intros H2 Hp Hq. pose proof (t_of p Hp) as Tp. pose proof (t_of q Hq) as Tq.
  destruct Hp as [Zp _], Hq as [Zq _].
  destruct p as [X1 Y1 Z1 T1], q as [X2 Y2 Z2 T2]. cbn [eX eY eZ eT] in *. subst T1 T2.
  cbv zeta. unfold ax, ay. cbn [eX eY eZ]. intros D1 D2.
  unfold pt_add, to_cached, c_add, to_ext, ext_ok. cbn [eX eY eZ eT cYpX cYmX cZ cT2d rX rY rZ rT].
  set (cz := (1 + 1) * (Z1 * Z2) * (1 + d * (X1 * / Z1) * (X2 * / Z2) * (Y1 * / Z1) * (Y2 * / Z2))).
  set (ct := (1 + 1) * (Z1 * Z2) * (1 - d * (X1 * / Z1) * (X2 * / Z2) * (Y1 * / Z1) * (Y2 * / Z2))).
  assert (Ecz : Z1 * Z2 + Z1 * Z2 + X2 * Y2 * / Z2 * (d + d) * (X1 * Y1 * / Z1) = cz)
    by (unfold cz; field; split; assumption).
  assert (Ect : Z1 * Z2 + Z1 * Z2 - X2 * Y2 * / Z2 * (d + d) * (X1 * Y1 * / Z1) = ct)
    by (unfold ct; field; split; assumption).
  assert (Ncz : cz <> 0) by (unfold cz; apply mul_nz; [apply two_nz_mul; [exact H2|apply mul_nz; assumption]|exact D1]).
  assert (Nct : ct <> 0) by (unfold ct; apply mul_nz; [apply two_nz_mul; [exact H2|apply mul_nz; assumption]|exact D2]).
  rewrite Ecz, Ect.
  assert (N1 : Z1 * Z2 * Z1 * Z2 + d * X1 * X2 * Y1 * Y2 <> 0).
  { intros E. apply D1.
    transitivity ((Z1 * Z2 * Z1 * Z2 + d * X1 * X2 * Y1 * Y2) * / (Z1 * Z2 * Z1 * Z2)); [field; split; assumption|].
    rewrite E. field. split; assumption. }
  assert (N2 : Z1 * Z2 * Z1 * Z2 - d * X1 * X2 * Y1 * Y2 <> 0).
  { intros E. apply D2.
    transitivity ((Z1 * Z2 * Z1 * Z2 - d * X1 * X2 * Y1 * Y2) * / (Z1 * Z2 * Z1 * Z2)); [field; split; assumption|].
    rewrite E. field. split; assumption. }
  split; [split; [apply mul_nz; assumption|ring]|].
  split.
  - transitivity (((Y1 + X1) * (Y2 + X2) - (Y1 - X1) * (Y2 - X2)) * / cz); [field; split; assumption|].
    unfold cz. field. repeat split; try assumption.
  - transitivity (((Y1 + X1) * (Y2 + X2) + (Y1 - X1) * (Y2 - X2)) * / ct); [field; split; assumption|].
    unfold ct. field. repeat split; try assumption.
Qed.

(* point.Sub is the addition of the negative *)
Theorem pt_sub_is_add_neg (p q : ext (K:=K)) :
  pt_sub O (d + d) p q = pt_add O (d + d) p (pt_neg O q).
Proof.
  destruct p as [X1 Y1 Z1 T1], q as [X2 Y2 Z2 T2].
  unfold pt_sub, pt_add, pt_neg, to_cached, c_sub, c_add, to_ext. cbn [eX eY eZ eT cYpX cYmX cZ cT2d rX rY rZ rT].
  f_equal; ring.
Qed.

Theorem pt_neg_spec (p : ext (K:=K)) :
  ext_ok p -> ext_ok (pt_neg O p) /\ ax O (pt_neg O p) = - ax O p /\ ay O (pt_neg O p) = ay O p.
Proof.
  intros [Hz Ht]. destruct p as [X Y Z T]. unfold pt_neg, ext_ok, ax, ay in *. cbn [eX eY eZ eT] in *.
  split; [split; [exact Hz|]|split].
  - transitivity (- (T * Z)); [ring|]. rewrite Ht. ring.
  - field. exact Hz.
  - reflexivity.
Qed.

(* doubling (ToProjective, projective Double, ToExtended) of a point ON THE CURVE is the addition
   law applied to the point and itself *)
Theorem pt_double_spec (p : ext (K:=K)) :
  1 + 1 <> 0 -> ext_ok p -> on_curve p ->
  let x := ax O p in let y := ay O p in
  let D := d * x * x * y * y in
  1 + D <> 0 -> 1 - D <> 0 ->
  let r := pt_double O p in
  ext_ok r /\ ax O r = (x * y + y * x) * / (1 + D) /\ ay O r = (y * y + x * x) * / (1 - D).
Proof.
  intros H2 [Hz _] Hc. destruct p as [X Y Z T]. unfold on_curve, ax, ay in *. cbn [eX eY eZ] in *.
  cbv zeta in *. intros D1 D2.
  unfold pt_double, p_double, to_ext, ext_ok. cbn [eX eY eZ eT pX pY pZ rX rY rZ rT].
  (* the completed Z and T: Y^2 - X^2 and 2Z^2 - (Y^2 - X^2), i.e. Z^2 (1 + D) and Z^2 (1 - D) *)
  assert (Ez : Y * Y - X * X = Z * Z * (1 + d * (X * / Z) * (X * / Z) * (Y * / Z) * (Y * / Z))).
  { rewrite <- Hc. field. exact Hz. }
  assert (Et : Z * Z + Z * Z - (Y * Y - X * X) = Z * Z * (1 - d * (X * / Z) * (X * / Z) * (Y * / Z) * (Y * / Z))).
  { rewrite Ez. ring. }
  assert (N1 : Z * Z * Z * Z + d * X * X * Y * Y <> 0).
  { intros E. apply D1.
    transitivity ((Z * Z * Z * Z + d * X * X * Y * Y) * / (Z * Z * Z * Z)); [field; exact Hz|].
    rewrite E. field. exact Hz. }
  assert (N2 : Z * Z * Z * Z - d * X * X * Y * Y <> 0).
  { intros E. apply D2.
    transitivity ((Z * Z * Z * Z - d * X * X * Y * Y) * / (Z * Z * Z * Z)); [field; exact Hz|].
    rewrite E. field. exact Hz. }
  assert (Nz : Y * Y - X * X <> 0) by (rewrite Ez; apply mul_nz; [apply mul_nz; assumption|exact D1]).
  assert (Nt : Z * Z + Z * Z - (Y * Y - X * X) <> 0) by (rewrite Et; apply mul_nz; [apply mul_nz; assumption|exact D2]).
  split; [split; [apply mul_nz; assumption|ring]|].
  split.
  - transitivity (((X + Y) * (X + Y) - (Y * Y + X * X)) * / (Y * Y - X * X)); [field; split; assumption|].
    rewrite Ez. field. repeat split; try assumption.
  - transitivity ((Y * Y + X * X) * / (Z * Z + Z * Z - (Y * Y - X * X))); [field; split; assumption|].
    rewrite Et. field. repeat split; try assumption.
Qed.

(* ---------------------------------------------------------------- representation independence *)

Definition eeqv (p q : ext (K:=K)) : Prop := ext_ok p /\ ext_ok q /\ ax O p = ax O q /\ ay O p = ay O q.

(* the sum of two elements does not depend on the extended coordinates that represent them *)
Theorem pt_add_respects (p p' q q' : ext (K:=K)) :
  1 + 1 <> 0 -> eeqv p p' -> eeqv q q' ->
  1 + d * ax O p * ax O q * ay O p * ay O q <> 0 -> 1 - d * ax O p * ax O q * ay O p * ay O q <> 0 ->
  eeqv (pt_add O (d + d) p q) (pt_add O (d + d) p' q').
Proof.
  intros H2 [Hp [Hp' [Px Py]]] [Hq [Hq' [Qx Qy]]] D1 D2.
  destruct (pt_add_spec p q H2 Hp Hq D1 D2) as [R [RX RY]].
  assert (D1' : 1 + d * ax O p' * ax O q' * ay O p' * ay O q' <> 0) by (rewrite <- Px, <- Py, <- Qx, <- Qy; exact D1).
  assert (D2' : 1 - d * ax O p' * ax O q' * ay O p' * ay O q' <> 0) by (rewrite <- Px, <- Py, <- Qx, <- Qy; exact D2).
  destruct (pt_add_spec p' q' H2 Hp' Hq' D1' D2') as [R' [RX' RY']].
  cbv zeta in *. repeat split; try (apply R); try (apply R').
  - rewrite RX, RX', Px, Py, Qx, Qy. reflexivity.
  - rewrite RY, RY', Px, Py, Qx, Qy. reflexivity.
Qed.

(* ---------------------------------------------------------------- consequences of the addition law *)

Lemma ext_zero_ok : ext_ok (ext_zero O) /\ ax O (ext_zero O) = 0 /\ ay O (ext_zero O) = 1.
Proof.
  pose proof (one_neq_zero O L) as N1. unfold ext_ok, ext_zero, ax, ay. cbn [eX eY eZ eT].
  split; [split; [exact N1|ring]|]. split; field; exact N1.
Qed.

(* the neutral element: P + O represents P *)
Theorem pt_add_zero (p : ext (K:=K)) :
  1 + 1 <> 0 -> ext_ok p -> eeqv (pt_add O (d + d) p (ext_zero O)) p.
Proof.
  intros H2 Hp. destruct ext_zero_ok as [Hz [Zx Zy]]. pose proof (one_neq_zero O L) as N1.
  assert (D0 : d * ax O p * ax O (ext_zero O) * ay O p * ay O (ext_zero O) = 0) by (rewrite Zx; ring).
  assert (D1 : 1 + d * ax O p * ax O (ext_zero O) * ay O p * ay O (ext_zero O) <> 0)
    by (rewrite D0; intros E; apply N1; rewrite <- E; ring).
  assert (D2 : 1 - d * ax O p * ax O (ext_zero O) * ay O p * ay O (ext_zero O) <> 0)
    by (rewrite D0; intros E; apply N1; rewrite <- E; ring).
  destruct (pt_add_spec p (ext_zero O) H2 Hp Hz D1 D2) as [R [RX RY]]. cbv zeta in *.
  split; [exact R|]. split; [exact Hp|]. split.
  - rewrite RX, D0, Zx, Zy. field. exact N1.
  - rewrite RY, D0, Zx, Zy. field. exact N1.
Qed.

(* commutativity on the elements: P + Q and Q + P represent the same element *)
Theorem pt_add_comm (p q : ext (K:=K)) :
  1 + 1 <> 0 -> ext_ok p -> ext_ok q ->
  1 + d * ax O p * ax O q * ay O p * ay O q <> 0 -> 1 - d * ax O p * ax O q * ay O p * ay O q <> 0 ->
  eeqv (pt_add O (d + d) p q) (pt_add O (d + d) q p).
Proof.
  intros H2 Hp Hq D1 D2.
  assert (E : d * ax O q * ax O p * ay O q * ay O p = d * ax O p * ax O q * ay O p * ay O q) by ring.
  assert (D1' : 1 + d * ax O q * ax O p * ay O q * ay O p <> 0) by (rewrite E; exact D1).
  assert (D2' : 1 - d * ax O q * ax O p * ay O q * ay O p <> 0) by (rewrite E; exact D2).
  destruct (pt_add_spec p q H2 Hp Hq D1 D2) as [R [RX RY]].
  destruct (pt_add_spec q p H2 Hq Hp D1' D2') as [R' [RX' RY']]. cbv zeta in *.
  split; [exact R|]. split; [exact R'|]. split.
  - rewrite RX, RX', E. f_equal. ring.
  - rewrite RY, RY', E. f_equal. ring.
Qed.

(* inverses: for a point of the curve, P + (-P) represents the neutral element *)
Theorem pt_add_neg (p : ext (K:=K)) :
  1 + 1 <> 0 -> ext_ok p -> on_curve p ->
  1 + d * ax O p * ax O p * ay O p * ay O p <> 0 -> 1 - d * ax O p * ax O p * ay O p * ay O p <> 0 ->
  eeqv (pt_add O (d + d) p (pt_neg O p)) (ext_zero O).
Proof.
  intros H2 Hp Hc D1 D2. destruct (pt_neg_spec p Hp) as [Hn [NX NY]]. destruct ext_zero_ok as [Hz [Zx Zy]].
  assert (E : d * ax O p * ax O (pt_neg O p) * ay O p * ay O (pt_neg O p)
              = - (d * ax O p * ax O p * ay O p * ay O p)) by (rewrite NX, NY; ring).
  assert (D1' : 1 + d * ax O p * ax O (pt_neg O p) * ay O p * ay O (pt_neg O p) <> 0).
  { rewrite E. intros X. apply D2. rewrite <- X. ring. }
  assert (D2' : 1 - d * ax O p * ax O (pt_neg O p) * ay O p * ay O (pt_neg O p) <> 0).
  { rewrite E. intros X. apply D1. rewrite <- X. ring. }
  destruct (pt_add_spec p (pt_neg O p) H2 Hp Hn D1' D2') as [R [RX RY]]. cbv zeta in *.
  split; [exact R|]. split; [exact Hz|]. split.
  - rewrite RX, Zx, NX, NY. field. rewrite <- NX, <- NY at 1. exact D1'.
  - rewrite RY, Zy, E, NX, NY. unfold on_curve in Hc. cbv zeta in Hc.
    assert (Den : 1 - - (d * ax O p * ax O p * ay O p * ay O p) <> 0).
    { intros X. apply D1. rewrite <- X. ring. }
    apply (proj1 (sub_eq_0 O L _ _)). 
    transitivity (((ay O p * ay O p - ax O p * ax O p) - (1 + d * ax O p * ax O p * ay O p * ay O p))
                  * / (1 - - (d * ax O p * ax O p * ay O p * ay O p))); [field; exact Den|].
    rewrite Hc. field. exact Den.
Qed.

End EdLaws.

(* ---------------------------------------------------------------- the constants of const.go *)

Open Scope Z_scope.

(* d2 = 2d, sqrtM1^2 = -1, and the base point: T Z = X Y and it lies on the curve (cleared of
   denominators: (Y^2 - X^2) Z^2 = Z^4 + d X^2 Y^2), all modulo 2^255 - 19 *)
Theorem ed_consts_ok :
  src_ed_p = 2 ^ 255 - 19 /\
  src_ed_d2 = (2 * src_ed_d) mod src_ed_p /\
  (src_ed_sqrtm1 * src_ed_sqrtm1 + 1) mod src_ed_p = 0 /\
  (src_ed_d * 121666 + 121665) mod src_ed_p = 0 /\
  let '(X, Y, Z, T) := src_ed_base in
  (T * Z - X * Y) mod src_ed_p = 0 /\
  ((Y * Y - X * X) * Z * Z - (Z * Z * Z * Z + src_ed_d * X * X * Y * Y)) mod src_ed_p = 0 /\
  (5 * Y - 4 * Z) mod src_ed_p = 0.
Proof. vm_compute. repeat split; reflexivity. Qed.
