(* DkgLive.v -- C04, the last sentence: with every protocol message of the honest members delivered
   (once each, in ANY order), a member's key-generation session finishes.  Models Vss.v, Dkg.v,
   repaired code.  The session of member i receives the deals of all other members in an arbitrary
   order, then the approvals (k's response to j's deal, for all j and all k other than i and j) in
   an arbitrary order. *)
From Coq Require Import ZArith List Bool Lia Permutation.
From DosVerif Require Import Base.Val Base.Field Models.Share Models.Tbls Models.Vss Models.Dkg
     Proofs.PolyLemmas Proofs.ShareProofs Proofs.TblsProofs Proofs.VssProofs Proofs.DkgProofs.
Import ListNotations.
Local Open Scope Z_scope.

Section Live.
Context {F : Type}.
Variable O : Fops F.
Hypothesis L : Flaws O.
Notation M := (self_gops O).

Variable members : list Z.      (* the members' long-term keys, by index *)
Variable t : Z.
Variable polys : Z -> list F.   (* dealer j's secret polynomial *)
Variable i : Z.                 (* the member whose session this is *)

Definition n : Z := Z.of_nat (length members).
Hypothesis Ht : 2 <= t <= n.
Hypothesis Hi : 0 <= i < n.
Hypothesis Hlen : forall j, length (polys j) = Z.to_nat t.

Definition K (j : Z) : Z := nth (Z.to_nat j) members 0.

Lemma nth_key_K j : 0 <= j < n -> nth_key members j = Some (K j).
Proof.
  intros Hj. unfold nth_key, K. replace (j <? 0) with false by (symmetry; apply Z.ltb_ge; lia).
  apply nth_error_nth'. unfold n in Hj. lia.
Qed.

Definition Gj (j : Z) : gen (F:=F) := mkgen j (K j) members t (polys j) [] [].
Definition Cj (j : Z) : list F := commit M (f1 O) (polys j).
Definition SIDj (j : Z) : sid (F:=F) := Sid (K j) members (Cj j) t.
Definition Pj (j : Z) : plain (F:=F) := mkplain (SIDj j) (Some (i, eval O (polys j) i)) t (Cj j).
(* j's deal for i (sealed under any ephemeral key e), k's approval of j's deal *)
Definition Dj (j e : Z) : edeal (F:=F) := own_edeal O (Gj j) i e.
Definition Rjk (j k : Z) : response (F:=F) := mkresp (SIDj j) k Approval (K k).

Definition Vsh (j : Z) (rl : list (Z * status)) : verifier (F:=F) :=
  mkver (K i) (K j) i members (Some (mkagg (SIDj j) (Cj j) t (Some (Pj j)) rl false)).

(* ---------------------------------------------------------------- reflexivity of the tests *)

Lemma zlist_eqb_refl l : zlist_eqb l l = true.
Proof. apply zlist_eqb_eq. reflexivity. Qed.

Lemma sid_eqb_refl (s : sid (F:=F)) : sid_eqb O s s = true.
Proof.
  destruct s as [d m c tt|k]; cbn; [|apply Z.eqb_refl].
  rewrite Z.eqb_refl, zlist_eqb_refl, Z.eqb_refl, !andb_true_r, andb_true_l.
  apply (list_eqb_iff _ c c (F_eqb O L)). reflexivity.
Qed.

Lemma check_honest j : check O M (f1 O) (Cj j) i (eval O (polys j) i) = true.
Proof.
  unfold Cj. apply (check_exact O M L (self_glaws O L)); [|reflexivity].
  constructor. intros k l E. cbn [self_gops gscale] in E.
  pose proof (F_th O L) as Fth. destruct Fth as [Rth _ _ _]. destruct Rth.
  rewrite (Rmul_comm k), (Rmul_comm l), !Rmul_1_l in E. exact E.
Qed.

Lemma in_range_b k : 0 <= k < n -> (k <? 0) || (n <=? k) = false.
Proof. intros H. apply orb_false_iff. split; [apply Z.ltb_ge|apply Z.leb_gt]; lia. Qed.

(* ---------------------------------------------------------------- one honest deal *)

Lemma ped_honest j e : 0 <= j < n ->
  process_encrypted_deal O true (mkver (K i) (K j) i members None) (Some (Dj j e))
  = Ok (Vsh j [(i, Approval)], mkresp (SIDj j) i Approval (K i)).
Proof.
  intros Hj. unfold Dj, own_edeal. cbn [Gj g_members g_key]. rewrite (nth_key_K i Hi).
  unfold process_encrypted_deal, decrypt_deal.
  cbn [e_sig_key e_sig_bytes e_dh_bytes e_dh_point e_nonce_len e_intact e_seal_eph e_seal_rcpt e_seal_dealer
       e_seal_members e_seal_nonce e_nonce e_plain v_dealer v_key v_members v_index v_agg].
  rewrite !Z.eqb_refl, zlist_eqb_refl. cbn [andb negb res_bind].
  change (own_plain O (Gj j) i) with (Pj j). cbn [Pj p_sec]. rewrite Z.eqb_refl. cbn [negb].
  cbn [p_commits p_t p_sid a_deal a_t a_resps a_bad].
  change (Sid (K j) members (Cj j) t) with (SIDj j). rewrite sid_eqb_refl.
  unfold deal_ok, valid_t, nmembers. cbn [v_members p_t p_commits]. fold n.
  change (p_t (Pj j)) with t. change (p_commits (Pj j)) with (Cj j). change (p_sid (Pj j)) with (SIDj j).
  rewrite check_honest.
  replace (2 <=? t) with true by (symmetry; apply Z.leb_le; lia).
  replace (t <=? n) with true by (symmetry; apply Z.leb_le; lia).
  replace (0 <=? i) with true by (symmetry; apply Z.leb_le; lia).
  replace (i <? n) with true by (symmetry; apply Z.ltb_lt; lia).
  cbn [andb]. unfold add_response. rewrite (in_range_b i Hi). cbn [a_resps lookup_resp find]. reflexivity.
Qed.

(* ---------------------------------------------------------------- the verifier table *)

Lemma NoDup_app_single {A} (l : list A) (x : A) : NoDup l -> ~ In x l -> NoDup (l ++ [x]).
Proof.
  induction l as [|y l IH]; intros Hnd Hx; [cbn; constructor; [intros []|constructor]|].
  cbn. inversion Hnd as [|? ? Hy Hl]. constructor.
  - intros Hin. apply in_app_iff in Hin. destruct Hin as [Hin|[<-|[]]]; [exact (Hy Hin)|apply Hx; left; reflexivity].
  - apply IH; [exact Hl|intros Hin; apply Hx; right; exact Hin].
Qed.

Notation vers := (list (Z * verifier (F:=F))).

Lemma get_ver_none j (l : vers) : ~ In j (map fst l) -> get_ver j l = None.
Proof.
  induction l as [|[k v] l IH]; intros H; [reflexivity|]. cbn [get_ver].
  destruct (k =? j) eqn:E; [apply Z.eqb_eq in E; exfalso; apply H; left; exact E|].
  apply IH. intros Hin. apply H. right. exact Hin.
Qed.

Lemma get_ver_in j v (l : vers) : NoDup (map fst l) -> In (j, v) l -> get_ver j l = Some v.
Proof.
  induction l as [|[k w] l IH]; intros Hnd Hin; [destruct Hin|]. cbn [get_ver]. cbn [map fst] in Hnd.
  destruct Hin as [E|Hin].
  - injection E as -> ->. rewrite Z.eqb_refl. reflexivity.
  - destruct (k =? j) eqn:E.
    + apply Z.eqb_eq in E. subst k. exfalso. inversion Hnd as [|? ? Hn _]. apply Hn.
      apply in_map_iff. exists (j, v). split; [reflexivity|exact Hin].
    + apply IH; [inversion Hnd; assumption|exact Hin].
Qed.

Lemma set_ver_new j v (l : vers) : ~ In j (map fst l) -> set_ver j v l = l ++ [(j, v)].
Proof.
  induction l as [|[k w] l IH]; intros H; [reflexivity|]. cbn [set_ver].
  destruct (k =? j) eqn:E; [apply Z.eqb_eq in E; exfalso; apply H; left; exact E|].
  cbn [app]. f_equal. apply IH. intros Hin. apply H. right. exact Hin.
Qed.

Lemma set_ver_keys j v (l : vers) : In j (map fst l) -> map fst (set_ver j v l) = map fst l.
Proof.
  induction l as [|[k w] l IH]; intros H; [destruct H|]. cbn [set_ver].
  destruct (k =? j) eqn:E; [reflexivity|]. cbn [map fst]. f_equal. apply IH.
  destruct H as [H|H]; [cbn in H; apply Z.eqb_neq in E; congruence|exact H].
Qed.

Lemma set_ver_in j v (l : vers) k w : NoDup (map fst l) -> In j (map fst l) ->
  In (k, w) (set_ver j v l) -> (k = j /\ w = v) \/ (k <> j /\ In (k, w) l).
Proof.
  induction l as [|[k' w'] l IH]; intros Hnd Hj Hin; [destruct Hj|]. cbn [set_ver] in Hin. cbn [map fst] in Hnd.
  destruct (k' =? j) eqn:E.
  - apply Z.eqb_eq in E. subst k'. destruct Hin as [Hin|Hin].
    + injection Hin as <- <-. left. split; reflexivity.
    + right. split; [|right; exact Hin]. intros ->. inversion Hnd as [|? ? Hn _]. apply Hn.
      apply in_map_iff. exists (j, w). split; [reflexivity|exact Hin].
  - apply Z.eqb_neq in E. destruct Hin as [Hin|Hin].
    + injection Hin as <- <-. right. split; [exact E|left; reflexivity].
    + destruct Hj as [Hj|Hj]; [cbn in Hj; congruence|].
      assert (Hnd' : NoDup (map fst l)) by (inversion Hnd; assumption).
      destruct (IH Hnd' Hj Hin) as [H|[H1 H2]]; [left; exact H|right; split; [exact H1|right; exact H2]].
Qed.

(* ---------------------------------------------------------------- the invariant *)

Lemma lookup_resp_none k (rl : list (Z * status)) : ~ In k (map fst rl) -> lookup_resp k rl = None.
Proof.
  unfold lookup_resp. induction rl as [|[k' s] rl IH]; intros H; [reflexivity|]. cbn [find fst].
  destruct (k' =? k) eqn:E; [apply Z.eqb_eq in E; exfalso; apply H; left; exact E|].
  apply IH. intros Hin. apply H. right. exact Hin.
Qed.

Lemma lookup_resp_some k (rl : list (Z * status)) : In k (map fst rl) -> lookup_resp k rl <> None.
Proof.
  unfold lookup_resp. induction rl as [|[k' s] rl IH]; intros H; [destruct H|]. cbn [find fst].
  destruct (k' =? k) eqn:E; [discriminate|]. apply IH. destruct H as [H|H]; [cbn in H; apply Z.eqb_neq in E; congruence|exact H].
Qed.

(* the responses recorded for dealer j's deal: one per responder, all approvals, exactly those of
   i itself, of j itself, and the ones delivered so far *)
Definition Good (j : Z) (rl : list (Z * status)) (Rs : list (Z * Z)) : Prop :=
  NoDup (map fst rl) /\
  (forall k s, In (k, s) rl -> s = Approval /\ 0 <= k < n) /\
  (forall k, In k (map fst rl) <-> k = i \/ k = j \/ In (j, k) Rs).

Definition GoodOwn (own : list (Z * status)) (Rs : list (Z * Z)) : Prop :=
  forall k, In k (map fst own) <-> In (i, k) Rs.

Definition Inv (g : gen (F:=F)) (S : list Z) (Rs : list (Z * Z)) : Prop :=
  g_index g = i /\ g_key g = K i /\ g_members g = members /\ g_t g = t /\ g_poly g = polys i /\
  map fst (g_vers g) = S /\ NoDup S /\ (forall j, In j S -> 0 <= j < n) /\
  (forall j v, In (j, v) (g_vers g) -> exists rl, v = Vsh j rl /\ Good j rl Rs) /\
  GoodOwn (g_own g) Rs.

Definition rl0 (j : Z) : list (Z * status) :=
  if i =? j then [(i, Approval)] else [(i, Approval); (j, Approval)].

Lemma good_rl0 j : 0 <= j < n -> Good j (rl0 j) [].
Proof.
  intros Hj. unfold rl0. destruct (i =? j) eqn:E.
  - apply Z.eqb_eq in E. subst j. split; [cbn; constructor; [intros []|constructor]|]. split.
    + intros k s [H|[]]. injection H as <- <-. split; [reflexivity|exact Hi].
    + intros k. cbn. split; [intros [H|[]]; left; symmetry; exact H|intros [H|[H|[]]]; left; symmetry; exact H].
  - apply Z.eqb_neq in E. split.
    + cbn. constructor; [intros [H|[]]; apply E; symmetry; exact H|constructor; [intros []|constructor]].
    + split.
      * intros k s [H|[H|[]]]; injection H as <- <-; (split; [reflexivity|assumption]).
      * intros k. cbn. split; [intros [H|[H|[]]]; [left|right; left]; symmetry; exact H|].
        intros [H|[H|[]]]; [left|right; left]; symmetry; exact H.
Qed.

Lemma unsafe_set_honest j : 0 <= j < n -> unsafe_set (Vsh j [(i, Approval)]) j = Vsh j (rl0 j).
Proof.
  intros Hj. unfold unsafe_set, Vsh, rl0. cbn [v_agg]. unfold add_response, nmembers. cbn [v_members a_resps]. fold n.
  rewrite (in_range_b j Hj). unfold lookup_resp. cbn [find fst].
  destruct (i =? j); reflexivity.
Qed.

(* one honest deal of a member whose deal was not seen yet: processed, approved, recorded *)
Lemma process_deal_step g S j e :
  Inv g S [] -> ~ In j S -> 0 <= j < n ->
  exists g' r, process_deal O true g j (Some (Dj j e)) = (g', Ok r) /\ r_status r = Approval /\ Inv g' (S ++ [j]) [].
Proof.
  intros [Hgi [Hgk [Hgm [Hgt [Hgp [Hkeys [Hnd [Hrange [Hent Hown]]]]]]]]] Hnj Hj.
  destruct g as [gi gk gm gt gp gv go]. cbn [g_index g_key g_members g_t g_poly g_vers g_own] in *. subst gi gk gm gt gp.
  unfold process_deal. cbn [g_index g_key g_members g_t g_poly g_vers g_own].
  rewrite (nth_key_K j Hj). rewrite get_ver_none by (rewrite Hkeys; exact Hnj).
  rewrite (ped_honest j e Hj). rewrite (unsafe_set_honest j Hj).
  eexists. eexists. split; [reflexivity|]. split; [reflexivity|].
  rewrite set_ver_new by (rewrite Hkeys; exact Hnj).
  unfold Inv. cbn [g_index g_key g_members g_t g_poly g_vers g_own].
  repeat (split; [reflexivity|]). split; [rewrite map_app, Hkeys; reflexivity|]. split.
  { apply NoDup_app_single; assumption. }
  split.
  { intros j' Hin. apply in_app_iff in Hin. destruct Hin as [Hin|[<-|[]]]; [apply Hrange; exact Hin|exact Hj]. }
  split; [|exact Hown].
  intros j' v Hin. apply in_app_iff in Hin. destruct Hin as [Hin|[Hin|[]]]; [exact (Hent j' v Hin)|].
  injection Hin as <- <-. exists (rl0 j). split; [reflexivity|apply good_rl0; exact Hj].
Qed.

(* the generator after Deals(): the own deal is recorded *)
Definition gi0 : gen (F:=F) := gen_init O true i (K i) members t (polys i).

Lemma inv_init : Inv gi0 [i] [].
Proof.
  assert (H0 : Inv (Gj i) [] []).
  { unfold Inv, Gj. cbn [g_index g_key g_members g_t g_poly g_vers g_own map].
    repeat (split; [reflexivity|]). split; [constructor|]. split; [intros j []|]. split; [intros j v []|].
    intros k. cbn. tauto. }
  destruct (process_deal_step (Gj i) [] i 0 H0 (fun x => x) Hi) as [g' [r [E [_ Hinv]]]].
  unfold gi0, gen_init. change (mkgen i (K i) members t (polys i) [] []) with (Gj i).
  change (own_edeal O (Gj i) i 0) with (Dj i 0). rewrite E. exact Hinv.
Qed.

(* getAndProcessDeals over the other members' deals in any order *)
Lemma deals_phase : forall js (e : Z -> Z) g S acc,
  Inv g S [] -> NoDup (S ++ js) -> (forall j, In j js -> 0 <= j < n) ->
  exists g' acc', get_and_process_deals O true g (map (fun j => (j, Some (Dj j (e j)))) js) acc = Ok (g', acc')
                  /\ Inv g' (S ++ js) [].
Proof.
  induction js as [|j js IH]; intros e g S acc Hinv Hnd Hr.
  - exists g, acc. split; [reflexivity|rewrite app_nil_r; exact Hinv].
  - assert (Hnj : ~ In j S).
    { intros Hin. apply NoDup_remove_2 in Hnd. apply Hnd. apply in_or_app. left. exact Hin. }
    destruct (process_deal_step g S j (e j) Hinv Hnj (Hr j (or_introl eq_refl))) as [g1 [r [E [Hst Hinv1]]]].
    cbn [map get_and_process_deals]. rewrite E, Hst.
    assert (Hnd1 : NoDup ((S ++ [j]) ++ js)) by (rewrite <- app_assoc; exact Hnd).
    destruct (IH e g1 (S ++ [j]) (acc ++ [(j, r)]) Hinv1 Hnd1 (fun x Hx => Hr x (or_intror Hx))) as [g' [acc' [E' Hinv']]].
    exists g', acc'. split; [exact E'|]. rewrite <- app_assoc in Hinv'. exact Hinv'.
Qed.

(* ---------------------------------------------------------------- one honest approval *)

Lemma good_add j rl Rs k :
  Good j rl Rs -> 0 <= k < n -> k <> i -> k <> j -> ~ In (j, k) Rs ->
  Good j (rl ++ [(k, Approval)]) ((j, k) :: Rs) /\ lookup_resp k rl = None.
Proof.
  intros [Hnd [Hall Hkeys]] Hk Hki Hkj Hnin.
  assert (Hnk : ~ In k (map fst rl)).
  { intros Hin. apply Hkeys in Hin. destruct Hin as [H|[H|H]]; [exact (Hki H)|exact (Hkj H)|exact (Hnin H)]. }
  split; [|apply lookup_resp_none; exact Hnk]. split.
  - rewrite map_app. cbn [map fst]. apply NoDup_app_single; assumption.
  - split.
    + intros k' s Hin. apply in_app_iff in Hin. destruct Hin as [Hin|[Hin|[]]]; [exact (Hall k' s Hin)|].
      injection Hin as <- <-. split; [reflexivity|exact Hk].
    + intros k'. rewrite map_app, in_app_iff. cbn [map fst In]. rewrite Hkeys. split.
      * intros [[H|[H|H]]|[H|[]]]; [left; exact H|right; left; exact H|right; right; right; exact H|].
        right. right. left. rewrite H. reflexivity.
      * intros [H|[H|[H|H]]]; [left; left; exact H|left; right; left; exact H| |left; right; right; exact H].
        right. left. injection H as ->. reflexivity.
Qed.

Lemma good_other j rl Rs j' k : Good j rl Rs -> j' <> j -> Good j rl ((j', k) :: Rs).
Proof.
  intros [Hnd [Hall Hkeys]] Hne. split; [exact Hnd|]. split; [exact Hall|].
  intros k'. rewrite Hkeys. cbn [In]. split.
  - intros [H|[H|H]]; [left; exact H|right; left; exact H|right; right; right; exact H].
  - intros [H|[H|[H|H]]]; [left; exact H|right; left; exact H| |right; right; exact H].
    injection H as E _. exfalso. apply Hne. exact E.
Qed.

Lemma process_response_honest j rl k :
  0 <= k < n -> lookup_resp k rl = None ->
  process_response O true (Vsh j rl) (Some (Rjk j k)) = Ok (Vsh j (rl ++ [(k, Approval)])).
Proof.
  intros Hk Hl. unfold process_response, Vsh, Rjk. cbn [v_agg r_sid a_sid r_index r_sig_key r_status v_members].
  rewrite sid_eqb_refl. cbn [negb]. rewrite (nth_key_K k Hk), Z.eqb_refl. cbn [negb].
  unfold add_response, nmembers. cbn [v_members a_resps]. fold n. rewrite (in_range_b k Hk), Hl. reflexivity.
Qed.

Lemma response_step g S Rs j k :
  Inv g S Rs -> In j S -> 0 <= k < n -> k <> i -> k <> j -> ~ In (j, k) Rs ->
  exists g', process_response_dkg O true g j (Some (Rjk j k)) = Ok g' /\ Inv g' S ((j, k) :: Rs).
Proof.
  intros [Hgi [Hgk [Hgm [Hgt [Hgp [Hkeys [Hnd [Hrange [Hent Hown]]]]]]]]] HjS Hk Hki Hkj Hnin.
  destruct g as [gi gk gm gt gp gv go]. cbn [g_index g_key g_members g_t g_poly g_vers g_own] in *. subst gi gk gm gt gp.
  assert (Hjk : In j (map fst gv)) by (rewrite Hkeys; exact HjS).
  assert (Hndk : NoDup (map fst gv)) by (rewrite Hkeys; exact Hnd).
  destruct (proj1 (in_map_iff _ _ _) Hjk) as [[j0 v] [Ej Hin]]. cbn [fst] in Ej. subst j0.
  destruct (Hent j v Hin) as [rl [-> Hgood]].
  destruct (good_add j rl Rs k Hgood Hk Hki Hkj Hnin) as [Hgood' Hlook].
  unfold process_response_dkg. cbn [g_index g_key g_members g_t g_poly g_vers g_own].
  rewrite (get_ver_in j _ gv Hndk Hin). rewrite (process_response_honest j rl k Hk Hlook).
  (* the entries of the updated table *)
  assert (Hent' : forall j' v', In (j', v') (set_ver j (Vsh j (rl ++ [(k, Approval)])) gv) ->
                    exists rl', v' = Vsh j' rl' /\ Good j' rl' ((j, k) :: Rs)).
  { intros j' v' Hin'. destruct (set_ver_in j _ gv j' v' Hndk Hjk Hin') as [[-> ->]|[Hne Hold]].
    - exists (rl ++ [(k, Approval)]). split; [reflexivity|exact Hgood'].
    - destruct (Hent j' v' Hold) as [rl' [-> Hg']]. exists rl'. split; [reflexivity|].
      apply good_other; [exact Hg'|intros E; apply Hne; symmetry; exact E]. }
  destruct (j =? i) eqn:Eji; cbn [negb].
  - (* a response about the own deal: the own Dealer's aggregator records it as well *)
    apply Z.eqb_eq in Eji. subst j.
    unfold own_add, own_sid, gn. cbn [g_index g_key g_members g_t g_poly g_vers g_own r_sid r_index r_sig_key r_status Rjk].
    change (Sid (K i) members (commit M (f1 O) (polys i)) t) with (SIDj i). rewrite sid_eqb_refl. cbn [negb].
    rewrite (nth_key_K k Hk), Z.eqb_refl. cbn [negb]. fold n. rewrite (in_range_b k Hk).
    assert (Hno : ~ In k (map fst go)) by (intros Hin'; apply Hown in Hin'; exact (Hnin Hin')).
    rewrite (lookup_resp_none k go Hno).
    eexists. split; [reflexivity|].
    unfold Inv. cbn [g_index g_key g_members g_t g_poly g_vers g_own].
    repeat (split; [reflexivity|]). split; [rewrite set_ver_keys by exact Hjk; exact Hkeys|].
    split; [exact Hnd|]. split; [exact Hrange|]. split; [exact Hent'|].
    intros k'. rewrite map_app, in_app_iff. cbn [map fst In]. rewrite (Hown k'). split.
    + intros [H|[H|[]]]; [right; exact H|left; rewrite H; reflexivity].
    + intros [H|H]; [right; left; injection H as ->; reflexivity|left; exact H].
  - apply Z.eqb_neq in Eji. eexists. split; [reflexivity|].
    unfold Inv. cbn [g_index g_key g_members g_t g_poly g_vers g_own].
    repeat (split; [reflexivity|]). split; [rewrite set_ver_keys by exact Hjk; exact Hkeys|].
    split; [exact Hnd|]. split; [exact Hrange|]. split; [exact Hent'|].
    intros k'. rewrite (Hown k'). cbn [In]. split; [intros H; right; exact H|].
    intros [H|H]; [injection H as E _; exfalso; apply Eji; exact E|exact H].
Qed.

(* getAndProcessResponses over the approvals in any order *)
Lemma responses_phase : forall ps g S Rs,
  Inv g S Rs -> NoDup (ps ++ Rs) ->
  (forall j k, In (j, k) ps -> In j S /\ 0 <= k < n /\ k <> i /\ k <> j) ->
  exists g', get_and_process_responses O true g (map (fun jk => (fst jk, Some (Rjk (fst jk) (snd jk)))) ps) = Ok g'
             /\ Inv g' S (rev ps ++ Rs).
Proof.
  induction ps as [|[j k] ps IH]; intros g S Rs Hinv Hnd Hall.
  - exists g. split; [reflexivity|exact Hinv].
  - destruct (Hall j k (or_introl eq_refl)) as [HjS [Hk [Hki Hkj]]].
    assert (Hnin : ~ In (j, k) Rs).
    { intros Hin. cbn [app] in Hnd. inversion Hnd as [|? ? Hn _]. apply Hn. apply in_or_app. right. exact Hin. }
    destruct (response_step g S Rs j k Hinv HjS Hk Hki Hkj Hnin) as [g1 [E Hinv1]].
    cbn [map get_and_process_responses fst snd]. rewrite E.
    assert (Hnd1 : NoDup (ps ++ (j, k) :: Rs)).
    { cbn [app] in Hnd. exact (Permutation_NoDup (Permutation_middle ps Rs (j, k)) Hnd). }
    destruct (IH g1 S ((j, k) :: Rs) Hinv1 Hnd1 (fun j' k' H => Hall j' k' (or_intror H))) as [g' [E' Hinv']].
    exists g'. split; [exact E'|]. cbn [rev]. rewrite <- app_assoc. exact Hinv'.
Qed.

(* ---------------------------------------------------------------- everything delivered: certified *)

Definition znats (m : nat) : list Z := map Z.of_nat (seq 0 m).

Lemma znats_nodup m : NoDup (znats m).
Proof.
  unfold znats. apply FinFun.Injective_map_NoDup; [intros a b E; apply Nat2Z.inj; exact E|apply seq_NoDup].
Qed.

Lemma znats_in m k : In k (znats m) <-> 0 <= k < Z.of_nat m.
Proof.
  unfold znats. rewrite in_map_iff. split.
  - intros [x [<- Hx]]. apply in_seq in Hx. lia.
  - intros H. exists (Z.to_nat k). split; [lia|apply in_seq; lia].
Qed.

Lemma filter_all {A} (f : A -> bool) l : (forall x, In x l -> f x = true) -> filter f l = l.
Proof.
  induction l as [|x l IH]; intros H; [reflexivity|]. cbn [filter]. rewrite (H x (or_introl eq_refl)).
  f_equal. apply IH. intros y Hy. apply H. right. exact Hy.
Qed.

Definition complete (Rs : list (Z * Z)) : Prop :=
  forall j k, 0 <= j < n -> 0 <= k < n -> k <> i -> k <> j -> In (j, k) Rs.

Lemma good_complete_certified j rl Rs :
  0 <= j < n -> Good j rl Rs -> complete Rs -> deal_certified (Vsh j rl) = true.
Proof.
  intros Hj [Hnd [Hall Hkeys]] Hc. unfold deal_certified, Vsh. cbn [v_agg a_t a_bad negb]. rewrite andb_true_r.
  assert (Hcover : forall k, 0 <= k < n -> In k (map fst rl)).
  { intros k Hk. apply Hkeys. destruct (Z.eq_dec k i) as [->|Hki]; [left; reflexivity|].
    destruct (Z.eq_dec k j) as [->|Hkj]; [right; left; reflexivity|]. right. right. apply Hc; assumption. }
  apply andb_true_iff. split.
  - (* approvals: every entry is an approval and there are at least n of them *)
    apply Z.leb_le. unfold approvals. cbn [a_resps].
    rewrite filter_all by (intros [k s] Hin; destruct (Hall k s Hin) as [-> _]; reflexivity).
    assert (Hle : (length (znats (length members)) <= length (map fst rl))%nat).
    { apply NoDup_incl_length; [apply znats_nodup|]. intros k Hk. apply znats_in in Hk. apply Hcover. exact Hk. }
    unfold znats in Hle. rewrite !map_length, seq_length in Hle. unfold n in Ht. lia.
  - unfold all_present, nmembers. cbn [v_members a_resps]. apply forallb_forall. intros x Hx. apply in_seq in Hx.
    destruct (lookup_resp (Z.of_nat x) rl) eqn:E; [reflexivity|]. exfalso.
    apply (lookup_resp_some (Z.of_nat x) rl); [|exact E]. apply Hcover. unfold n. lia.
Qed.

Lemma fold_pub_add (T : nat) : forall (rest : list (plain (F:=F))) c,
  length c = T -> (forall p, In p rest -> length (p_commits p) = T) ->
  exists c', fold_left (fun acc p => match acc with Some c => pub_add M c (p_commits p) | None => None end) rest (Some c) = Some c'.
Proof.
  induction rest as [|p rest IH]; intros c Hc Hall; [exists c; reflexivity|].
  cbn [fold_left]. unfold pub_add at 2. rewrite Hc, (Hall p (or_introl eq_refl)), Nat.eqb_refl.
  apply IH; [|intros q Hq; apply Hall; right; exact Hq].
  rewrite zip_with_length; [exact Hc|rewrite Hc; symmetry; apply Hall; left; reflexivity].
Qed.

Lemma certified_finishes g S Rs :
  Inv g S Rs -> complete Rs -> (forall j, 0 <= j < n -> In j S) ->
  exists C x, dist_key_share O g = Ok (C, x).
Proof.
  intros [Hgi [Hgk [Hgm [Hgt [Hgp [Hkeys [Hnd [Hrange [Hent Hown]]]]]]]]] Hc Hcover.
  assert (Hcert : forall kv, In kv (g_vers g) -> deal_certified (snd kv) = true).
  { intros [j v] Hin. destruct (Hent j v Hin) as [rl [-> Hg]]. cbn [snd].
    apply (good_complete_certified j rl Rs); [|exact Hg|exact Hc].
    apply Hrange. rewrite <- Hkeys. apply in_map_iff. exists (j, Vsh j rl). split; [reflexivity|exact Hin]. }
  unfold dist_key_share, certified, qual, gn. rewrite Hgm. rewrite (filter_all _ _ Hcert), map_length.
  assert (Hlen' : (length members <= length (g_vers g))%nat).
  { rewrite <- (map_length fst), Hkeys.
    replace (length members) with (length (znats (length members))) by (unfold znats; rewrite map_length, seq_length; reflexivity).
    apply NoDup_incl_length; [apply znats_nodup|]. intros k Hk. apply znats_in in Hk. apply Hcover. exact Hk. }
  replace (Z.of_nat (length members) <=? Z.of_nat (length (g_vers g))) with true by (symmetry; apply Z.leb_le; lia).
  cbn [negb].
  (* the certified deals *)
  set (deals := flat_map _ (g_vers g)).
  assert (Hdeals : forall p, In p deals -> length (p_commits p) = Z.to_nat t).
  { intros p Hp. unfold deals in Hp. apply in_flat_map in Hp. destruct Hp as [[j v] [Hin Hp]].
    destruct (Hent j v Hin) as [rl [-> Hg]]. cbn [snd] in Hp.
    destruct (deal_certified (Vsh j rl)); [|destruct Hp]. cbn [Vsh v_agg a_deal] in Hp. destruct Hp as [<-|[]].
    cbn [Pj p_commits]. unfold Cj, commit. rewrite map_length. apply Hlen. }
  destruct deals as [|p0 rest] eqn:Ed.
  - (* impossible: the table is not empty *)
    exfalso. destruct (g_vers g) as [|[j v] l] eqn:Ev; [cbn in Hlen'; unfold n in Hi; lia|].
    unfold deals in Ed. cbn [flat_map] in Ed. rewrite (Hcert (j, v) (or_introl eq_refl)) in Ed.
    destruct (Hent j v (or_introl eq_refl)) as [rl [-> _]]. cbn [snd Vsh v_agg a_deal] in Ed. discriminate.
  - destruct (fold_pub_add (Z.to_nat t) rest (p_commits p0) (Hdeals p0 (or_introl eq_refl))
                           (fun p Hp => Hdeals p (or_intror Hp))) as [c' Ec].
    rewrite Ec. eexists. eexists. reflexivity.
Qed.

(* ---------------------------------------------------------------- the theorem *)

(* every other member's deal and every approval delivered once, in any order: the session finishes *)
Theorem session_finishes (js : list Z) (e : Z -> Z) (ps : list (Z * Z)) :
  NoDup js -> (forall j, In j js <-> 0 <= j < n /\ j <> i) ->
  NoDup ps -> (forall j k, In (j, k) ps <-> 0 <= j < n /\ 0 <= k < n /\ k <> i /\ k <> j) ->
  exists C x,
    session O true gi0 (map (fun j => (j, Some (Dj j (e j)))) js)
                       (map (fun jk => (fst jk, Some (Rjk (fst jk) (snd jk)))) ps) = Ok (C, x).
Proof.
  intros Hndj Hjs Hndp Hps.
  assert (Hnd : NoDup ([i] ++ js)).
  { cbn. constructor; [intros Hin; apply Hjs in Hin; destruct Hin as [_ Hne]; apply Hne; reflexivity|exact Hndj]. }
  destruct (deals_phase js e gi0 [i] [] inv_init Hnd (fun j Hj => proj1 (proj1 (Hjs j) Hj))) as [g1 [acc [E1 Hinv1]]].
  assert (HS : forall j, 0 <= j < n -> In j ([i] ++ js)).
  { intros j Hj. destruct (Z.eq_dec j i) as [->|Hne]; [left; reflexivity|right; apply Hjs; split; assumption]. }
  assert (Hndp' : NoDup (ps ++ [])) by (rewrite app_nil_r; exact Hndp).
  destruct (responses_phase ps g1 ([i] ++ js) [] Hinv1 Hndp'
              (fun j k H => match proj1 (Hps j k) H with conj Hj (conj Hk (conj Hki Hkj)) => conj (HS j Hj) (conj Hk (conj Hki Hkj)) end))
    as [g2 [E2 Hinv2]].
  assert (Hc : complete (rev ps ++ [])).
  { intros j k Hj Hk Hki Hkj. rewrite app_nil_r. apply in_rev. rewrite rev_involutive. apply Hps. split; [exact Hj|split; [exact Hk|split; [exact Hki|exact Hkj]]]. }
  destruct (certified_finishes g2 ([i] ++ js) (rev ps ++ []) Hinv2 Hc HS) as [C [x E3]].
  exists C, x. unfold session. rewrite E1. cbn [res_bind fst]. rewrite E2. cbn [res_bind]. exact E3.
Qed.

End Live.
