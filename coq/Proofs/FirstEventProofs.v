From Coq Require Import ZArith NArith List Bool Lia.
From DosVerif Require Import Base.Val Models.Stages Proofs.StagesProofs Models.FirstEvent.
Import ListNotations.

Lemma bytes_eq_eq a : forall b, bytes_eq a b = true <-> a = b.
Proof.
  induction a as [|x a IH]; intros [|y b]; cbn; split; intros H; try discriminate; try reflexivity.
  - apply andb_prop in H. destruct H as [H1 H2]. apply N.eqb_eq in H1. apply IH in H2. subst. reflexivity.
  - inversion H; subst. rewrite N.eqb_refl. cbn. apply IH. reflexivity.
Qed.

Lemma seen_in visited i : seen visited i = true <-> In i visited.
Proof.
  unfold seen. rewrite existsb_exists. split.
  - intros [x [Hx He]]. apply bytes_eq_eq in He. subst. exact Hx.
  - intros H. exists i. split; [exact H|apply bytes_eq_eq; reflexivity].
Qed.

(* delivered logs come from the stream, are not removed, and were not visited before *)
Lemma first_event_sound stream : forall visited l,
  In l (first_event visited stream) -> In l stream /\ l_removed l = false /\ ~ In (ident l) visited.
Proof.
  induction stream as [|x rest IH]; intros visited l H; cbn in H; [contradiction|].
  destruct (l_removed x) eqn:Er.
  - destruct (IH _ _ H) as [H1 H2]. split; [right; exact H1|exact H2].
  - destruct (seen visited (ident x)) eqn:Es.
    + destruct (IH _ _ H) as [H1 H2]. split; [right; exact H1|exact H2].
    + destruct H as [H|H].
      * subst l. split; [left; reflexivity|]. split; [exact Er|].
        intros Hin. apply seen_in in Hin. congruence.
      * destruct (IH _ _ H) as [H1 [H2 H3]]. split; [right; exact H1|]. split; [exact H2|].
        intros Hin. apply H3. right. exact Hin.
Qed.

Theorem removed_never_delivered stream l : In l (first_event [] stream) -> l_removed l = false.
Proof. intros H. apply (first_event_sound stream [] l H). Qed.

Theorem delivered_from_stream stream l : In l (first_event [] stream) -> In l stream.
Proof. intros H. apply (first_event_sound stream [] l H). Qed.

(* no identity is delivered twice *)
Lemma first_event_nodup stream : forall visited, NoDup (map ident (first_event visited stream)).
Proof.
  induction stream as [|x rest IH]; intros visited; cbn; [constructor|].
  destruct (l_removed x); [apply IH|]. destruct (seen visited (ident x)); [apply IH|].
  cbn. constructor; [|apply IH].
  intros Hin. apply in_map_iff in Hin. destruct Hin as [l [He Hl]].
  destruct (first_event_sound rest _ l Hl) as [_ [_ Hn]]. apply Hn. left. symmetry. exact He.
Qed.

Theorem delivered_once stream : NoDup (map ident (first_event [] stream)).
Proof. apply first_event_nodup. Qed.

(* every log that is not flagged removed is delivered (itself or its first occurrence) unless its
   identity was already visited *)
Lemma first_event_complete stream : forall visited l,
  In l stream -> l_removed l = false ->
  In (ident l) visited \/ In (ident l) (map ident (first_event visited stream)).
Proof.
  induction stream as [|x rest IH]; intros visited l Hin Hr; [contradiction|]. cbn.
  destruct Hin as [Hx|Hin].
  - subst x. rewrite Hr. destruct (seen visited (ident l)) eqn:Es.
    + left. apply seen_in. exact Es.
    + right. left. reflexivity.
  - destruct (l_removed x); [apply IH; assumption|].
    destruct (seen visited (ident x)) eqn:Es; [apply IH; assumption|].
    destruct (IH (ident x :: visited) l Hin Hr) as [[H|H]|H].
    + right. left. exact H.
    + left. exact H.
    + right. right. exact H.
Qed.

(* the delivered identities are exactly the identities of the logs of the merged stream that are
   not flagged removed: each once, whatever the interleaving of the endpoints *)
Theorem delivered_exactly stream x :
  In x (map ident (first_event [] stream)) <-> exists l, In l stream /\ l_removed l = false /\ ident l = x.
Proof.
  split.
  - intros H. apply in_map_iff in H. destruct H as [l [He Hl]].
    destruct (first_event_sound stream [] l Hl) as [H1 [H2 _]]. exists l. auto.
  - intros [l [H1 [H2 H3]]]. destruct (first_event_complete stream [] l H1 H2) as [[]|H]. subst x. exact H.
Qed.

(* two merged streams that carry the same non-removed identities -- any two interleavings of the
   endpoints' emissions, with any duplicates, removed re-emissions, or one endpoint cut short while
   another still carries the history -- deliver the same identities *)
Corollary interleaving_independent s1 s2 :
  (forall x, (exists l, In l s1 /\ l_removed l = false /\ ident l = x) <->
             (exists l, In l s2 /\ l_removed l = false /\ ident l = x)) ->
  forall x, In x (map ident (first_event [] s1)) <-> In x (map ident (first_event [] s2)).
Proof. intros H x. rewrite !delivered_exactly. apply H. Qed.

(* the hashed bytes determine data and block number for ABI-encoded data (a multiple of 32 bytes)
   and 64-bit block numbers *)
Lemma be_min_length_le8 n : (n < 2 ^ 64)%N -> length (be_min n) <= 8.
Proof.
  intros H. rewrite (be_min_of_enc 8 n) by (change (256 ^ N.of_nat 8)%N with (2 ^ 64)%N; exact H).
  pose proof (drop_zeros_length_le (be_enc 8 n)). rewrite be_enc_length in H0. exact H0.
Qed.

Lemma app_inj_len {A} (a b c d : list A) : a ++ b = c ++ d -> length a = length c -> a = c /\ b = d.
Proof.
  revert c; induction a as [|x a IH]; intros [|y c] H Hl; cbn in *; try discriminate; [auto|].
  inversion H; subst. destruct (IH c H2 ltac:(lia)) as [-> ->]. auto.
Qed.

Lemma be_min_inj a b : (a < 2 ^ 64)%N -> (b < 2 ^ 64)%N -> be_min a = be_min b -> a = b.
Proof.
  intros Ha Hb H.
  assert (Ea : pad_or_trim (be_min a) 8 = be_enc 8 a) by (apply pad_be_min; change (256 ^ N.of_nat 8)%N with (2 ^ 64)%N; exact Ha).
  assert (Eb : pad_or_trim (be_min b) 8 = be_enc 8 b) by (apply pad_be_min; change (256 ^ N.of_nat 8)%N with (2 ^ 64)%N; exact Hb).
  rewrite H in Ea. rewrite Ea in Eb. clear -Eb Ha Hb.
  (* be_enc 8 is injective below 2^64 *)
  assert (Hv : forall k n, (n < 256 ^ N.of_nat k)%N -> fold_left (fun acc x => (acc * 256 + x)%N) (be_enc k n) 0%N = n).
  { induction k as [|k IH]; intros n Hn.
    - cbn in *. lia.
    - cbn [be_enc]. rewrite fold_left_app. cbn [fold_left]. rewrite IH.
      + pose proof (N.div_mod n 256 ltac:(lia)). lia.
      + rewrite pow256_succ in Hn. apply N.div_lt_upper_bound; lia. }
  rewrite <- (Hv 8%nat a), <- (Hv 8%nat b), Eb; try reflexivity;
    change (256 ^ N.of_nat 8)%N with (2 ^ 64)%N; assumption.
Qed.

Theorem identity_injective l1 l2 :
  length (l_data l1) mod 32 = 0 -> length (l_data l2) mod 32 = 0 ->
  (l_block l1 < 2 ^ 64)%N -> (l_block l2 < 2 ^ 64)%N ->
  ident l1 = ident l2 -> l_data l1 = l_data l2 /\ l_block l1 = l_block l2.
Proof.
  intros H1 H2 B1 B2 He. unfold ident in He.
  pose proof (be_min_length_le8 _ B1) as L1. pose proof (be_min_length_le8 _ B2) as L2.
  assert (Hl : length (l_data l1) = length (l_data l2)).
  { pose proof (f_equal (@length N) He) as Hlen. rewrite !app_length in Hlen.
    pose proof (Nat.div_mod (length (l_data l1)) 32 ltac:(lia)).
    pose proof (Nat.div_mod (length (l_data l2)) 32 ltac:(lia)).
    rewrite H1 in H. rewrite H2 in H0.
    assert (length (l_data l1) / 32 = length (l_data l2) / 32) by lia. lia. }
  destruct (app_inj_len _ _ _ _ He Hl) as [Hd Hb]. split; [exact Hd|].
  apply be_min_inj; assumption.
Qed.
