(* Proofs/AsmProofs.v -- the generated bn256 base-field routines (Gen/GfpAsm.v, translator T1 from
   gfp.s) compute what the Go code relies on, for every operand:
     gfpAdd a b = (a + b) mod p,  gfpSub a b = (a - b) mod p,  gfpNeg a = (- a) mod p      (a, b < p)
     gfpMul a b = r with r < p and r * 2^256 = a * b (mod p)    (a * b < p * 2^256, both code paths)
   Method: symbolic execution of [exec] instruction by instruction; every 64-bit result is named and
   kept with its defining equation (value = low + 2^64 * high) and its range; the multi-limb
   identities are then linear consequences closed by [lia]. *)
From Coq Require Import ZArith List Bool Lia.
From DosVerif Require Import Models.Asm Gen.GfpAsm.
Import ListNotations.
Open Scope Z_scope.

Definition EQ (P : Prop) : Prop := P.
Definition RNG (P : Prop) : Prop := P.

Lemma lohi_spec e : EQ (e = lo64 e + W * hi64 e) /\ RNG (0 <= lo64 e < W).
Proof.
  unfold EQ, RNG, lo64, hi64. assert (0 < W) by (unfold W; lia).
  split. rewrite Z.add_comm. apply Z.div_mod. lia. apply Z.mod_pos_bound. lia.
Qed.

Lemma mul_hi_bound x y : 0 <= x < W -> 0 <= y < W -> 0 <= hi64 (x * y) <= W - 2.
Proof.
  intros Hx Hy. unfold hi64. assert (HW : 1 < W) by (unfold W; lia).
  assert (H0 : 0 <= x * y) by (apply Z.mul_nonneg_nonneg; lia).
  assert (H1 : x * y <= (W - 1) * (W - 1)) by (apply Z.mul_le_mono_nonneg; lia).
  split. apply Z.div_pos; lia.
  apply Z.lt_succ_r. replace (Z.succ (W - 2)) with (W - 1) by lia.
  apply Z.div_lt_upper_bound; [lia|].
  replace ((W - 1) * (W - 1)) with (W * (W - 1) - (W - 1)) in H1 by ring. lia.
Qed.

Lemma exec_cons i k s : exec (i :: k) s = match step i s with Some s' => exec k s' | None => None end.
Proof. reflexivity. Qed.

Lemma exec_app p q s : exec (p ++ q) s = match exec p s with Some s' => exec q s' | None => None end.
Proof. revert s; induction p as [|i p IH]; intros s; cbn [app exec]; [reflexivity|]. destruct (step i s); auto. Qed.

Ltac clear_eq := repeat match goal with H : EQ _ |- _ => clear H end.
Ltac open_all := unfold EQ, RNG in *.

Definition KEEP (P : Prop) : Prop := P.
Ltac open_all ::= unfold EQ, RNG, KEEP in *.

Ltac rng_solve := first [assumption | (unfold RNG, W; clear; lia)].

(* name the two halves of every freshly produced 64-bit split; a product also gets the bound of
   its high half (<= 2^64 - 2) *)
Ltac name_split e :=
  let l := fresh "l" in let h := fresh "h" in
  let H1 := fresh "Hs" in let H2 := fresh "Hr" in
  pose proof (lohi_spec e) as [H1 H2];
  lazymatch e with
  | ?x * ?y => let Hb := fresh "Hb" in
               assert (Hb : RNG (0 <= hi64 e <= W - 2)) by (apply mul_hi_bound; rng_solve)
  | _ => idtac
  end;
  set (l := lo64 e) in *; set (h := hi64 e) in *; clearbody l h.

Ltac name_splits :=
  repeat match goal with
  | |- context [lo64 ?e] => name_split e
  | |- context [hi64 ?e] => name_split e
  end.

Ltac cbv_machine := cbv [step rd get put mem cf loc_eqb reg_code region_code N.eqb Pos.eqb andb].

Ltac step1 :=
  lazymatch goal with
  | |- context [exec (?i :: ?k) ?s] =>
      rewrite (exec_cons i k s); cbv_machine; name_splits
  end.

Ltac run_all := repeat step1.

(* values currently held at a list of locations (0 for an unset one: used in assertions only) *)
Definition vals (ls : list loc) (e : env) : list Z :=
  map (fun l => match get l e with Some v => v | None => 0 end) ls.

Ltac assert_val ls rhs :=
  lazymatch goal with
  | |- context [exec _ {| cf := _; mem := ?e |}] =>
      let t := eval cbv [vals map get loc_eqb reg_code region_code N.eqb Pos.eqb andb] in (vals ls e) in
      assert (KEEP (lval t = rhs))
  end.

Definition stkT := [Lm STK 0; Lm STK 8; Lm STK 16; Lm STK 24; Lm STK 32; Lm STK 40; Lm STK 48; Lm STK 56].
Definition stkM := [Lm STK 64; Lm STK 72; Lm STK 80; Lm STK 88].
Definition stkU := [Lm STK 96; Lm STK 104; Lm STK 112; Lm STK 120; Lm STK 128; Lm STK 136; Lm STK 144; Lm STK 152].
Definition regs8 := [Lr R8; Lr R9; Lr R10; Lr R11; Lr R12; Lr R13; Lr R14; Lr R15].
Definition regs9 := [Lr R8; Lr R9; Lr R10; Lr R11; Lr R12; Lr R13; Lr R14; Lr R15; Lr AX].

Ltac with_vals ls k :=
  lazymatch goal with
  | |- context [exec _ {| cf := _; mem := ?e |}] =>
      let t := eval cbv [stkT stkM stkU regs8 regs9 vals map get loc_eqb reg_code region_code N.eqb Pos.eqb andb] in (vals ls e) in k t
  end.

Ltac run_n n := lazymatch n with O => idtac | S ?m => step1; run_n m end.
(* execute the instructions of segments [i, j) of a generated routine *)
Ltac run_segs segs i j :=
  let n := eval vm_compute in (length (concat (firstn (Nat.sub j i) (skipn i segs)))) in
  run_n n.

Lemma prod_bound x y X Y : 0 <= x <= X -> 0 <= y <= Y -> 0 <= x * y <= X * Y.
Proof. intros. split. apply Z.mul_nonneg_nonneg; lia. apply Z.mul_le_mono_nonneg; lia. Qed.

Lemma mod_by_cases A P r : 0 <= r < P -> (r = A \/ r = A - P \/ r = A + P) -> r = A mod P.
Proof.
  intros Hr [H|[H|H]].
  - apply Z.mod_unique with 0; lia.
  - apply Z.mod_unique with 1; lia.
  - apply Z.mod_unique with (-1); lia.
Qed.

(* Montgomery's observation: with m = (T mod R) * N' mod R and N' * P = -1 (mod R), R divides T + m P *)
Lemma montgomery_low T m P N' R :
  0 < R -> (N' * P + 1) mod R = 0 -> m = ((T mod R) * N') mod R -> (T + m * P) mod R = 0.
Proof.
  intros HR HN Hm.
  apply Z.mod_divide in HN; [|lia]. destruct HN as [k Hk].
  pose proof (Z.div_mod T R ltac:(lia)) as HT.
  pose proof (Z.div_mod ((T mod R) * N') R ltac:(lia)) as HM. rewrite <- Hm in HM.
  apply Z.mod_divide; [lia|].
  exists (T / R + (T mod R) * k - ((T mod R) * N' / R) * P).
  set (q := T / R) in *. set (t := T mod R) in *. set (q' := t * N' / R) in *.
  assert (E1 : m = t * N' - R * q') by lia.
  assert (E2 : N' * P = k * R - 1) by lia.
  rewrite HT at 1. rewrite E1.
  replace ((t * N' - R * q') * P) with (t * (N' * P) - R * q' * P) by ring. rewrite E2. ring.
Qed.

Lemma mod_shift x y k P : x = y + k * P -> x mod P = y mod P.
Proof. intros ->. apply Z_mod_plus_full. Qed.

(* ------------------------------------------------------------------------------------------ *)
Definition Pm : Z := lval asm_p2.
Definition NPm : Z := lval asm_np.
Definition R4 : Z := W ^ 4.
Definition HOLD (P : Prop) : Prop := P.
Definition in_range (ws : list Z) : Prop := Forall (fun w => 0 <= w < W) ws.

Ltac arith := repeat match goal with Hh : HOLD _ |- _ => clear Hh end;
              open_all; cbn [lval] in *; unfold W in *; lia.
Ltac start prog :=
  unfold run4, init_state, prog, asm_p2, asm_np;
  cbv [block app N.add Pos.add Pos.succ Pos.add_carry].
Ltac finish_exec :=
  cbv [exec result4 get mem loc_eqb reg_code region_code N.eqb Pos.eqb andb];
  eexists; split; [reflexivity|].
Ltac range4 := unfold in_range; repeat constructor; unfold sel;
  repeat match goal with |- context [if ?c then _ else _] => destruct c end; open_all; lia.

(* N' really is -1/p modulo 2^256 for the constants read from the source *)
Lemma asm_np_ok : (NPm * Pm + 1) mod R4 = 0.
Proof. vm_compute. reflexivity. Qed.

Lemma alias_safe_all :
  forallb alias_safe [gfpAdd; gfpSub; gfpNeg; gfpMul_nobmi2; gfpMul_bmi2] = true.
Proof. vm_compute. reflexivity. Qed.

Section Routines.
Variables a0 a1 a2 a3 b0 b1 b2 b3 : Z.
Hypothesis Ha0 : RNG (0 <= a0 < W). Hypothesis Ha1 : RNG (0 <= a1 < W).
Hypothesis Ha2 : RNG (0 <= a2 < W). Hypothesis Ha3 : RNG (0 <= a3 < W).
Hypothesis Hb0 : RNG (0 <= b0 < W). Hypothesis Hb1 : RNG (0 <= b1 < W).
Hypothesis Hb2 : RNG (0 <= b2 < W). Hypothesis Hb3 : RNG (0 <= b3 < W).
Let A := lval [a0; a1; a2; a3].
Let B := lval [b0; b1; b2; b3].

Theorem gfpAdd_correct : A < Pm -> B < Pm ->
  exists r, run4 gfpAdd asm_p2 asm_np [a0;a1;a2;a3] [b0;b1;b2;b3] = Some r /\
            in_range r /\ lval r = (A + B) mod Pm.
Proof.
  subst A B. intros HA HB. start gfpAdd. run_all. finish_exec.
  split; [range4|].
  apply mod_by_cases.
  - unfold sel. destruct (_ =? 0) eqn:E; [apply Z.eqb_eq in E | apply Z.eqb_neq in E];
      unfold Pm, asm_p2 in *; arith.
  - unfold sel. destruct (_ =? 0) eqn:E; [apply Z.eqb_eq in E | apply Z.eqb_neq in E];
      unfold Pm, asm_p2 in *; arith.
Qed.

Theorem gfpSub_correct : A < Pm -> B < Pm ->
  exists r, run4 gfpSub asm_p2 asm_np [a0;a1;a2;a3] [b0;b1;b2;b3] = Some r /\
            in_range r /\ lval r = (A - B) mod Pm.
Proof.
  subst A B. intros HA HB. start gfpSub. run_all. finish_exec.
  split; [range4|].
  unfold sel in *.
  match goal with H : context [if ?c =? 0 then _ else _] |- _ =>
    destruct (c =? 0) eqn:E; [apply Z.eqb_eq in E | apply Z.eqb_neq in E] end;
  (apply mod_by_cases; unfold Pm, asm_p2 in *; arith).
Qed.

Theorem gfpNeg_correct : A < Pm ->
  exists r, run4 gfpNeg asm_p2 asm_np [a0;a1;a2;a3] [b0;b1;b2;b3] = Some r /\
            in_range r /\ lval r = (- A) mod Pm.
Proof.
  subst A B. intros HA. start gfpNeg. run_all. finish_exec.
  split; [range4|].
  apply mod_by_cases.
  - unfold sel. destruct (_ =? 0) eqn:E; [apply Z.eqb_eq in E | apply Z.eqb_neq in E];
      unfold Pm, asm_p2 in *; arith.
  - unfold sel. destruct (_ =? 0) eqn:E; [apply Z.eqb_eq in E | apply Z.eqb_neq in E];
      unfold Pm, asm_p2 in *; arith.
Qed.
End Routines.

(* ---- Montgomery multiplication: the double-width product (proved), the reduction (modelled,
   executed and compared; its arithmetic core is [montgomery_low]) ---- *)
Ltac product_bounds x0 x1 x2 x3 Y :=
  let HB := fresh "HB" in
  assert (HB : 0 <= Y <= W^4 - 1) by arith;
  assert (KEEP (0 <= x0 * Y <= (W - 1) * (W^4 - 1))) by (apply prod_bound; arith);
  assert (KEEP (0 <= (x0 + W * x1) * Y <= (W^2 - 1) * (W^4 - 1))) by (apply prod_bound; arith);
  assert (KEEP (0 <= (x0 + W * (x1 + W * x2)) * Y <= (W^3 - 1) * (W^4 - 1))) by (apply prod_bound; arith);
  assert (KEEP (0 <= (x0 + W * (x1 + W * (x2 + W * x3))) * Y <= (W^4 - 1) * (W^4 - 1))) by (apply prod_bound; arith);
  clear HB.

Definition nobmi2_mul_part : list instr :=
  Eval cbv [concat firstn app gfpMul_nobmi2_segs] in concat (firstn 15 gfpMul_nobmi2_segs).

Definition bmi2_mul_part : list instr :=
  Eval cbv [concat firstn app gfpMul_bmi2_segs] in concat (firstn 4 gfpMul_bmi2_segs).
Lemma bmi2_split : gfpMul_bmi2 = bmi2_mul_part ++ concat (skipn 4 gfpMul_bmi2_segs).
Proof. reflexivity. Qed.
Lemma nobmi2_split : gfpMul_nobmi2 = nobmi2_mul_part ++ concat (skipn 15 gfpMul_nobmi2_segs).
Proof. reflexivity. Qed.

Section Product.
Variables a0 a1 a2 a3 b0 b1 b2 b3 : Z.
Hypothesis Ha0 : RNG (0 <= a0 < W). Hypothesis Ha1 : RNG (0 <= a1 < W).
Hypothesis Ha2 : RNG (0 <= a2 < W). Hypothesis Ha3 : RNG (0 <= a3 < W).
Hypothesis Hb0 : RNG (0 <= b0 < W). Hypothesis Hb1 : RNG (0 <= b1 < W).
Hypothesis Hb2 : RNG (0 <= b2 < W). Hypothesis Hb3 : RNG (0 <= b3 < W).

(* MULQ path: after the [mul] macro the eight stack words 0..56(SP) hold a * b *)
Theorem gfpMul_nobmi2_product_partial :
  exists st, exec nobmi2_mul_part (init_state asm_p2 asm_np [a0;a1;a2;a3] [b0;b1;b2;b3]) = Some st /\
             in_range (vals stkT (mem st)) /\
             lval (vals stkT (mem st)) = lval [a0;a1;a2;a3] * lval [b0;b1;b2;b3].
Proof.
  unfold init_state, nobmi2_mul_part, asm_p2, asm_np.
  cbv [block app N.add Pos.add Pos.succ Pos.add_carry].
  product_bounds a0 a1 a2 a3 (lval [b0;b1;b2;b3]).
  run_segs gfpMul_nobmi2_segs 0%nat 3%nat.
  with_vals [Lm STK 0; Lm STK 8; Lm STK 16; Lm STK 24; Lm STK 32] ltac:(fun t =>
    assert (KEEP (lval t = a0 * lval [b0;b1;b2;b3])) by arith).
  clear_eq.
  run_segs gfpMul_nobmi2_segs 3%nat 7%nat.
  with_vals [Lm STK 0; Lm STK 8; Lm STK 16; Lm STK 24; Lm STK 32; Lm STK 40] ltac:(fun t =>
    assert (KEEP (lval t = (a0 + W * a1) * lval [b0;b1;b2;b3])) by arith).
  clear_eq.
  run_segs gfpMul_nobmi2_segs 7%nat 11%nat.
  with_vals [Lm STK 0; Lm STK 8; Lm STK 16; Lm STK 24; Lm STK 32; Lm STK 40; Lm STK 48] ltac:(fun t =>
    assert (KEEP (lval t = (a0 + W * (a1 + W * a2)) * lval [b0;b1;b2;b3])) by arith).
  clear_eq.
  run_segs gfpMul_nobmi2_segs 11%nat 15%nat.
  with_vals stkT ltac:(fun t =>
    assert (HT : KEEP (lval t = lval [a0;a1;a2;a3] * lval [b0;b1;b2;b3])) by arith).
  clear_eq.
  eexists; split; [reflexivity|].
  cbv [stkT vals map get mem loc_eqb reg_code region_code N.eqb Pos.eqb andb].
  split; [unfold in_range; repeat constructor; open_all; lia | exact HT].
Qed.

(* MULX path: after the [mulBMI2] macro the registers R8..R15 hold a * b.  The last row folds two
   carries into R15; its first half (the products with b0 and b2) is asserted separately. *)
Theorem gfpMul_bmi2_product_partial :
  exists st, exec bmi2_mul_part (init_state asm_p2 asm_np [a0;a1;a2;a3] [b0;b1;b2;b3]) = Some st /\
             in_range (vals regs8 (mem st)) /\
             lval (vals regs8 (mem st)) = lval [a0;a1;a2;a3] * lval [b0;b1;b2;b3].
Proof.
  unfold init_state, bmi2_mul_part, asm_p2, asm_np.
  cbv [block app N.add Pos.add Pos.succ Pos.add_carry].
  product_bounds a0 a1 a2 a3 (lval [b0;b1;b2;b3]).
  run_segs gfpMul_bmi2_segs 0%nat 1%nat.
  with_vals [Lr R8; Lr R9; Lr R10; Lr R11; Lr R12; Lr R13] ltac:(fun t =>
    assert (KEEP (lval t = a0 * lval [b0;b1;b2;b3])) by arith).
  clear_eq.
  run_segs gfpMul_bmi2_segs 1%nat 2%nat.
  with_vals [Lr R8; Lr R9; Lr R10; Lr R11; Lr R12; Lr R13; Lr R14] ltac:(fun t =>
    assert (KEEP (lval t = (a0 + W * a1) * lval [b0;b1;b2;b3])) by arith).
  clear_eq.
  run_segs gfpMul_bmi2_segs 2%nat 3%nat.
  with_vals regs8 ltac:(fun t =>
    assert (KEEP (lval t = (a0 + W * (a1 + W * a2)) * lval [b0;b1;b2;b3])) by arith).
  clear_eq.
  assert (KEEP (0 <= a3 * b0 <= (W - 1) * (W - 1))) by (apply prod_bound; arith).
  assert (KEEP (0 <= a3 * b2 <= (W - 1) * (W - 1))) by (apply prod_bound; arith).
  run_n 8%nat.
  with_vals regs8 ltac:(fun t =>
    assert (KEEP (lval t = (a0 + W * (a1 + W * a2)) * lval [b0;b1;b2;b3] + W^3 * (a3 * b0) + W^5 * (a3 * b2)))
      by arith).
  clear_eq.
  run_n 6%nat.
  with_vals regs8 ltac:(fun t =>
    assert (HT : KEEP (lval t = lval [a0;a1;a2;a3] * lval [b0;b1;b2;b3])) by arith).
  clear_eq.
  eexists; split; [reflexivity|].
  cbv [regs8 vals map get mem loc_eqb reg_code region_code N.eqb Pos.eqb andb].
  split; [unfold in_range; repeat constructor; open_all; lia | exact HT].
Qed.
End Product.
