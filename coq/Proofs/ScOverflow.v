(* ScOverflow.v -- the limb programs never leave the int64 range: with Go's wrapping arithmetic
   modelled explicitly ([wrap] after every addition, subtraction, multiplication and left shift)
   the wrapped execution equals the exact one whenever the interval analysis [irun] succeeds. *)
From Coq Require Import ZArith List Bool Lia.
From DosVerif Require Import Models.ScLimbs Proofs.ScLimbsProofs.
Import ListNotations.
Open Scope Z_scope.

Definition wrap (z : Z) : Z := (z + 2 ^ 63) mod 2 ^ 64 - 2 ^ 63.

Lemma wrap_fits z : - 2 ^ 63 <= z < 2 ^ 63 -> wrap z = z.
Proof. intros H. unfold wrap. rewrite Z.mod_small by lia. lia. Qed.

(* Go's execution of one step on int64 limbs *)
Fixpoint waddmany (l : list Z) (base : nat) (x : Z) (cs : list Z) : list Z :=
  match cs with
  | [] => l
  | c :: r => waddmany (set l base (wrap (get l base + wrap (x * c)))) (S base) x r
  end.

Definition wstep (l : list Z) (o : op) : list Z :=
  match o with
  | Carry i r =>
      let t := if r then wrap (get l i + 2 ^ 20) else get l i in
      let c := t / 2 ^ 21 in
      let l1 := set l (S i) (wrap (get l (S i) + c)) in
      set l1 i (wrap (get l1 i - wrap (c * 2 ^ 21)))
  | Fold k cs => set (waddmany l (k - 12) (get l k) cs) k 0
  end.

Definition in_iv (x : Z) (a : ival) : Prop := fst a <= x <= snd a.
Definition all_in (l : list Z) (il : list ival) : Prop := Forall2 in_iv l il.

Lemma ifits_spec a x : ifits a = true -> in_iv x a -> - 2 ^ 63 <= x < 2 ^ 63.
Proof.
  unfold ifits, in_iv. intros H [H1 H2]. apply andb_prop in H. destruct H as [Ha Hb].
  apply Z.leb_le in Ha. apply Z.ltb_lt in Hb. lia.
Qed.

Lemma all_in_get l il i : all_in l il -> (i < length l)%nat -> in_iv (get l i) (iget il i).
Proof.
  intros H. revert i. induction H as [|x a l il Hx Hl IH]; intros i Hi; cbn in Hi; [lia|].
  destruct i; cbn; [exact Hx|]. apply IH. lia.
Qed.

Lemma all_in_length l il : all_in l il -> length l = length il.
Proof. induction 1; cbn; auto. Qed.

Lemma all_in_set l il i x a : all_in l il -> in_iv x a -> all_in (set l i x) (iset il i a).
Proof.
  intros H Hx. revert i. induction H as [|y b l il Hy Hl IH]; intros i; [destruct i; constructor|].
  destruct i; cbn; constructor; auto. apply IH.
Qed.

Lemma in_iadd x y a b : in_iv x a -> in_iv y b -> in_iv (x + y) (iadd a b).
Proof. unfold in_iv, iadd. cbn. lia. Qed.

Lemma in_iscale x a c : in_iv x a -> in_iv (x * c) (iscale a c).
Proof.
  unfold in_iv, iscale. intros [H1 H2]. destruct (0 <=? c) eqn:E; cbn.
  - apply Z.leb_le in E. split; apply Z.mul_le_mono_nonneg_r; lia.
  - apply Z.leb_gt in E. split; apply Z.mul_le_mono_nonpos_r; lia.
Qed.

(* the exact step written with set instead of addto *)
Lemma addto_set l i d : addto l i d = set l i (get l i + d).
Proof. reflexivity. Qed.

Lemma waddmany_sound cs : forall l il il' base x ix,
  all_in l il -> in_iv x ix -> iaddmany il base ix cs = Some il' -> (base + length cs <= length l)%nat ->
  waddmany l base x cs = addmany l base x cs /\ all_in (addmany l base x cs) il'.
Proof.
  induction cs as [|c r IH]; intros l il il' base x ix Hall Hx Hi Hlen; cbn [iaddmany waddmany addmany length] in *.
  - inversion Hi; subst. auto.
  - destruct (ifits (iscale ix c) && ifits (iadd (iget il base) (iscale ix c))) eqn:Ef; [|discriminate].
    apply andb_prop in Ef. destruct Ef as [Ef1 Ef2].
    pose proof (in_iscale x ix c Hx) as Hp.
    pose proof (all_in_get l il base Hall ltac:(lia)) as Hg.
    pose proof (in_iadd _ _ _ _ Hg Hp) as Hs.
    rewrite (wrap_fits (x * c)) by (apply (ifits_spec (iscale ix c)); assumption).
    rewrite (wrap_fits (get l base + x * c)) by (apply (ifits_spec (iadd (iget il base) (iscale ix c))); assumption).
    rewrite addto_set.
    apply (IH (set l base (get l base + x * c)) (iset il base (iadd (iget il base) (iscale ix c))) il' (S base) x ix); auto.
    + apply all_in_set; assumption.
    + rewrite set_length. lia.
Qed.

Theorem step_no_overflow l il il' o :
  all_in l il -> op_ok (length l) o = true -> istep il o = Some il' ->
  wstep l o = step l o /\ all_in (step l o) il'.
Proof.
  intros Hall Hok Hi. destruct o as [i r|k cs]; cbn [op_ok istep wstep step] in *.
  - apply Nat.ltb_lt in Hok.
    set (s := get l i) in *. set (isv := iget il i) in *.
    pose proof (all_in_get l il i Hall ltac:(lia)) as Hs. fold s isv in Hs.
    pose proof (all_in_get l il (S i) Hall Hok) as Hn.
    set (it := if r then iadd isv (2 ^ 20, 2 ^ 20) else isv) in *.
    set (ic := (fst it / 2 ^ 21, snd it / 2 ^ 21)) in *.
    destruct (ifits it && ifits (iadd (iget il (S i)) ic) && ifits (iscale ic (2 ^ 21))) eqn:Ef; [|discriminate].
    inversion Hi; subst il'; clear Hi.
    apply andb_prop in Ef. destruct Ef as [Ef Ef3]. apply andb_prop in Ef. destruct Ef as [Ef1 Ef2].
    set (t := s + (if r then 2 ^ 20 else 0)).
    assert (Ht : in_iv t it).
    { unfold t, it. destruct r; [apply in_iadd; [exact Hs|unfold in_iv; cbn; lia]|rewrite Z.add_0_r; exact Hs]. }
    assert (Hwt : (if r then wrap (s + 2 ^ 20) else s) = t).
    { unfold t. destruct r; [apply wrap_fits; eapply ifits_spec; [exact Ef1|exact Ht]|lia]. }
    rewrite Hwt. set (c := t / 2 ^ 21).
    assert (Hc : in_iv c ic).
    { unfold c, ic, in_iv in *. cbn. destruct Ht as [H1 H2]. split; apply Z.div_le_mono; lia. }
    pose proof (in_iadd _ _ _ _ Hn Hc) as Hnc.
    pose proof (in_iscale c ic (2 ^ 21) Hc) as Hsh.
    rewrite (wrap_fits (get l (S i) + c)) by (apply (ifits_spec (iadd (iget il (S i)) ic)); assumption).
    rewrite (wrap_fits (c * 2 ^ 21)) by (apply (ifits_spec (iscale ic (2 ^ 21))); assumption).
    rewrite get_set_other by lia. fold s.
    assert (Hres : in_iv (s - c * 2 ^ 21) (if r then (- 2 ^ 20, 2 ^ 20 - 1) else (0, 2 ^ 21 - 1))).
    { unfold c, t, in_iv. destruct r; cbn [fst snd].
      - pose proof (Z.div_mod (s + 2 ^ 20) (2 ^ 21) ltac:(lia)).
        pose proof (Z.mod_pos_bound (s + 2 ^ 20) (2 ^ 21) ltac:(lia)). lia.
      - rewrite Z.add_0_r.
        pose proof (Z.div_mod s (2 ^ 21) ltac:(lia)).
        pose proof (Z.mod_pos_bound s (2 ^ 21) ltac:(lia)). lia. }
    rewrite (wrap_fits (s - c * 2 ^ 21)).
    2:{ unfold in_iv in Hres. destruct r; cbn [fst snd] in Hres; lia. }
    unfold addto. rewrite get_set_other by lia. fold s.
    replace (s + - (c * 2 ^ 21)) with (s - c * 2 ^ 21) by ring.
    split; [reflexivity|].
    apply all_in_set; [apply all_in_set; assumption|exact Hres].
  - apply andb_prop in Hok. destruct Hok as [Hok Hf]. apply andb_prop in Hok. destruct Hok as [H1 H2].
    apply Nat.leb_le in H1. apply Nat.ltb_lt in H2.
    unfold fold_ok in Hf. apply andb_prop in Hf. destruct Hf as [Hlen _]. apply Nat.eqb_eq in Hlen.
    destruct (iaddmany il (k - 12) (iget il k) cs) as [il1|] eqn:Ea; [|discriminate].
    inversion Hi; subst il'; clear Hi.
    pose proof (all_in_get l il k Hall H2) as Hx.
    destruct (waddmany_sound cs l il il1 (k - 12) (get l k) (iget il k) Hall Hx Ea ltac:(lia)) as [Hw Hin].
    rewrite Hw. unfold addto. rewrite get_addmany_other by lia.
    replace (get l k + - get l k) with 0 by ring.
    split; [reflexivity|]. apply all_in_set; [exact Hin|unfold in_iv; cbn; lia].
Qed.

Fixpoint wrun (ops : list op) (l : list Z) : list Z :=
  match ops with [] => l | o :: r => wrun r (wstep l o) end.

Lemma run_cons o r l : run (o :: r) l = run r (step l o).
Proof. reflexivity. Qed.

Theorem run_no_overflow ops : forall l il il',
  all_in l il -> forallb (op_ok (length l)) ops = true -> irun ops il = Some il' ->
  wrun ops l = run ops l /\ all_in (run ops l) il'.
Proof.
  induction ops as [|o r IH]; intros l il il' Hall Hok Hi; cbn [irun wrun forallb] in *.
  - inversion Hi; subst. auto.
  - apply andb_prop in Hok. destruct Hok as [Ho Hr].
    destruct (istep il o) as [il1|] eqn:Es; [|discriminate].
    destruct (step_no_overflow l il il1 o Hall Ho Es) as [Hw Hin].
    rewrite Hw, run_cons. apply (IH (step l o) il1 il'); auto. rewrite step_length. exact Hr.
Qed.

(* ---------------------------------------------------------------- the initial limb vector *)

Lemma in_imul x y a b : 0 <= fst a -> 0 <= fst b -> in_iv x a -> in_iv y b -> in_iv (x * y) (imul a b).
Proof.
  unfold in_iv, imul. destruct a as [a1 a2], b as [b1 b2]. cbn [fst snd]. intros Ha Hb [H1 H2] [H3 H4].
  assert (a1 * b1 <= x * y) by (apply Z.mul_le_mono_nonneg; lia).
  assert (x * y <= a2 * b2) by (apply Z.mul_le_mono_nonneg; lia).
  assert (a1 * b1 <= a1 * b2) by (apply Z.mul_le_mono_nonneg_l; lia).
  assert (a1 * b1 <= a2 * b1) by (apply Z.mul_le_mono_nonneg_r; lia).
  assert (a1 * b2 <= a2 * b2) by (apply Z.mul_le_mono_nonneg_r; lia).
  assert (a2 * b1 <= a2 * b2) by (apply Z.mul_le_mono_nonneg_l; lia).
  lia.
Qed.

Lemma in_isgn n x a : in_iv x a -> in_iv (sgn n x) (isgn n a).
Proof. unfold in_iv, sgn, isgn, ineg. destruct n; cbn; lia. Qed.

Definition bound_ok (opnd : nat -> nat -> Z) (bound : nat -> nat -> ival) : Prop :=
  forall v i, in_iv (opnd v i) (bound v i) /\ 0 <= fst (bound v i).

Lemma in_term opnd bound t : bound_ok opnd bound -> in_iv (eval_term opnd t) (ival_term bound t).
Proof.
  intros Hb. destruct t as [z|n v i|n i j]; cbn [eval_term ival_term].
  - unfold in_iv; cbn; lia.
  - apply in_isgn. apply Hb.
  - apply in_isgn. apply in_imul; apply Hb.
Qed.

Lemma in_iv_mag x a : in_iv x a -> Z.abs x <= imag a.
Proof. unfold in_iv, imag. lia. Qed.

(* every prefix sum of a limb's initialisation (Go adds left to right) is bounded by the summed
   magnitudes, and the total lies in the computed interval *)
Lemma limb_acc_sound opnd bound ts : bound_ok opnd bound ->
  in_iv (eval_limb opnd ts) (fst (ival_limb_acc bound ts)) /\
  (forall t, In t ts -> Z.abs (eval_term opnd t) <= snd (ival_limb_acc bound ts)) /\
  (forall k, Z.abs (eval_limb opnd (firstn k ts)) <= snd (ival_limb_acc bound ts)) /\
  0 <= snd (ival_limb_acc bound ts).
Proof.
  intros Hb. induction ts as [|t r [IH1 [IH2 [IH3 IH4]]]]; cbn [eval_limb fold_right ival_limb_acc fst snd].
  - split; [unfold in_iv; cbn; lia|]. split; [intros t []|]. split; [intros k; destruct k; cbn; lia|cbn; lia].
  - pose proof (in_term opnd bound t Hb) as Ht. pose proof (in_iv_mag _ _ Ht) as Hm.
    assert (0 <= imag (ival_term bound t)) by (unfold imag; lia).
    split; [apply in_iadd; assumption|]. split; [|split].
    + intros t' [Heq|Hin]; [subst t'; lia|]. specialize (IH2 t' Hin). lia.
    + intros k. destruct k; cbn [firstn eval_limb fold_right]; [lia|].
      specialize (IH3 k). fold (eval_limb opnd (firstn k r)). lia.
    + lia.
Qed.

Lemma init_sound opnd bound init : forall il, bound_ok opnd bound ->
  ival_init bound init = Some il -> all_in (eval_init opnd init) il.
Proof.
  induction init as [|ts r IH]; intros il Hb H; cbn [ival_init eval_init map] in *.
  - inversion H; subst. constructor.
  - unfold ival_limb in H. destruct (snd (ival_limb_acc bound ts) <? 2 ^ 63); [|discriminate].
    destruct (ival_init bound r) as [l|]; [|discriminate]. inversion H; subst.
    constructor; [apply (limb_acc_sound opnd bound ts Hb)|apply IH; auto].
Qed.

(* the whole routine: from operand limbs within their bounds to the end, Go's int64 execution is
   the exact one *)
Theorem routine_no_overflow opnd bound init ops il0 il1 :
  bound_ok opnd bound -> ival_init bound init = Some il0 -> irun ops il0 = Some il1 ->
  forallb (op_ok (length init)) ops = true ->
  wrun ops (eval_init opnd init) = run ops (eval_init opnd init) /\ all_in (run ops (eval_init opnd init)) il1.
Proof.
  intros Hb Hi Hr Hok. apply (run_no_overflow ops _ il0 il1).
  - apply (init_sound opnd bound); assumption.
  - unfold eval_init. rewrite map_length. exact Hok.
  - exact Hr.
Qed.
