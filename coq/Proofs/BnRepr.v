(* BnRepr.v -- C10: the group operations of curve.go / twist.go are functions of the ELEMENTS, not of
   the Jacobian triples that happen to represent them.  Two triples represent the same element when
   both are the point at infinity (z = 0) or both are finite with the same affine coordinates; Add,
   Double, Neg and MakeAffine map operands that represent the same elements to results that
   represent the same element - whichever branch (chord, tangent, inverse, identity) each pair of
   triples takes.  Over ANY field of characteristic other than two (F_p for G1, F_p^2 for G2). *)
From Coq Require Import ZArith List Bool Field.
From DosVerif Require Import Base.Val Base.Field Models.Bn Proofs.PolyLemmas Proofs.BnFieldProofs.
Import ListNotations.

Section Repr.
Context {K : Type}.
Variable O : Fops K.
Hypothesis L : Flaws O.
Notation "0" := (f0 O). Notation "1" := (f1 O).
Infix "+" := (fadd O). Infix "*" := (fmul O). Infix "-" := (fsub O).
Notation "- x" := (fopp O x). Notation "/ x" := (finv O x).
Add Field Kr : (Fth O L).

Definition jeqv (a b : jac (K:=K)) : Prop :=
  (jz a = 0 /\ jz b = 0) \/
  (jz a <> 0 /\ jz b <> 0 /\ aff_x O a = aff_x O b /\ aff_y O a = aff_y O b).

Lemma jeqv_refl a : jeqv a a.
Proof. destruct (feq_dec O L (jz a) 0) as [H|H]; [left; split; exact H|right; repeat split; exact H || reflexivity]. Qed.

Lemma jeqv_sym a b : jeqv a b -> jeqv b a.
Proof. intros [[H1 H2]|[H1 [H2 [H3 H4]]]]; [left; split; assumption|right; repeat split; congruence]. Qed.

Lemma jeqv_trans a b c : jeqv a b -> jeqv b c -> jeqv a c.
Proof.
  intros [[H1 H2]|[H1 [H2 [H3 H4]]]] [[G1 G2]|[G1 [G2 [G3 G4]]]]; try contradiction.
  - left; split; assumption.
  - right; repeat split; congruence.
Qed.

Lemma is_inf_true (a : jac (K:=K)) : jz a = 0 -> is_inf O a = true.
Proof. intros H. unfold is_inf. apply (feqb_true O L). exact H. Qed.

Lemma is_inf_false (a : jac (K:=K)) : jz a <> 0 -> is_inf O a = false.
Proof. intros H. unfold is_inf. apply (feqb_false O L). exact H. Qed.

Lemma is_inf_zero (a : jac (K:=K)) : is_inf O a = true -> jz a = 0.
Proof. unfold is_inf. intros H. apply (feqb_true O L). exact H. Qed.

(* the cross-multiplied tests of Add are the affine equalities *)
Lemma cross_x a b : jz a <> 0 -> jz b <> 0 ->
  (jx b * (jz a * jz a) - jx a * (jz b * jz b) = 0 <-> aff_x O a = aff_x O b).
Proof.
  intros Ha Hb. unfold aff_x. split; intros H.
  - apply (proj1 (sub_eq_0 O L _ _)) in H.
    transitivity (jx a * (jz b * jz b) * / (jz a * jz a) * / (jz b * jz b)); [field; split; assumption|].
    rewrite <- H. field. split; assumption.
  - apply (sub_eq_0 O L).
    transitivity (jx b * / (jz b * jz b) * (jz a * jz a) * (jz b * jz b)); [field; assumption|].
    rewrite <- H. field. assumption.
Qed.

Lemma cross_y a b : jz a <> 0 -> jz b <> 0 ->
  (jy b * (jz a * (jz a * jz a)) - jy a * (jz b * (jz b * jz b)) = 0 <-> aff_y O a = aff_y O b).
Proof.
  intros Ha Hb. unfold aff_y. split; intros H.
  - apply (proj1 (sub_eq_0 O L _ _)) in H.
    transitivity (jy a * (jz b * (jz b * jz b)) * / (jz a * jz a * jz a) * / (jz b * jz b * jz b)); [field; split; assumption|].
    rewrite <- H. field. split; assumption.
  - apply (sub_eq_0 O L).
    transitivity (jy b * / (jz b * jz b * jz b) * (jz a * (jz a * jz a)) * (jz b * (jz b * jz b))); [field; assumption|].
    rewrite <- H. field. assumption.
Qed.

Lemma aff_y_nonzero a : jz a <> 0 -> jy a <> 0 -> aff_y O a <> 0.
Proof.
  intros Hz Hy E. apply Hy. unfold aff_y in E.
  assert (jy a = jy a * / (jz a * jz a * jz a) * (jz a * jz a * jz a)) as -> by (field; exact Hz).
  rewrite E. ring.
Qed.

Lemma jy_nonzero_of_aff a : jz a <> 0 -> aff_y O a <> 0 -> jy a <> 0.
Proof. intros Hz H E. apply H. unfold aff_y. rewrite E. field. exact Hz. Qed.

(* ---------------------------------------------------------------- Double *)

Theorem jac_double_respects a a' :
  1 + 1 <> 0 -> (jz a <> 0 -> jy a <> 0) ->
  jeqv a a' -> jeqv (jac_double O a) (jac_double O a').
Proof.
  intros H2 Hy [[H1 H1']|[H1 [H1' [Hx Hyy]]]].
  - left. unfold jac_double. cbn [jz]. rewrite H1, H1'. split; ring.
  - right. specialize (Hy H1).
    assert (Hy' : jy a' <> 0).
    { apply jy_nonzero_of_aff; [exact H1'|]. rewrite <- Hyy. apply aff_y_nonzero; assumption. }
    destruct (jac_double_spec O L a H1 Hy H2) as [Z [X Y]].
    destruct (jac_double_spec O L a' H1' Hy' H2) as [Z' [X' Y']].
    cbv zeta in *. repeat split; try assumption.
    + rewrite X, X', Hx, Hyy. reflexivity.
    + rewrite Y, Y', X, X', Hx, Hyy. reflexivity.
Qed.

(* ---------------------------------------------------------------- Add *)

Theorem jac_add_respects a a' b b' :
  1 + 1 <> 0 ->
  (jz a <> 0 -> jy a <> 0) ->                  (* no finite operand of order two (y = 0) *)
  jeqv a a' -> jeqv b b' -> jeqv (jac_add O a b) (jac_add O a' b').
Proof.
  intros H2 Hy Ha Hb.
  destruct Ha as [[A A']|[A [A' [Ax Ay]]]].
  { rewrite (jac_add_inf_l O a b (is_inf_true a A)), (jac_add_inf_l O a' b' (is_inf_true a' A')). exact Hb. }
  destruct Hb as [[B B']|[B [B' [Bx By]]]].
  { rewrite (jac_add_inf_r O a b (is_inf_false a A) (is_inf_true b B)).
    rewrite (jac_add_inf_r O a' b' (is_inf_false a' A') (is_inf_true b' B')).
    right. repeat split; assumption. }
  destruct (feq_dec O L (aff_x O a) (aff_x O b)) as [Ex|Nx].
  - assert (Ex' : aff_x O a' = aff_x O b') by congruence.
    pose proof (proj2 (cross_x a b A B) Ex) as Cx. pose proof (proj2 (cross_x a' b' A' B') Ex') as Cx'.
    destruct (feq_dec O L (aff_y O a) (aff_y O b)) as [Ey|Ny].
    + assert (Ey' : aff_y O a' = aff_y O b') by congruence.
      pose proof (proj2 (cross_y a b A B) Ey) as Cy. pose proof (proj2 (cross_y a' b' A' B') Ey') as Cy'.
      rewrite (jac_add_same O L a b A B Cx Cy), (jac_add_same O L a' b' A' B' Cx' Cy').
      apply jac_double_respects; [exact H2|exact Hy|]. right. repeat split; assumption.
    + assert (Ny' : aff_y O a' <> aff_y O b') by congruence.
      assert (Cy : jy b * (jz a * (jz a * jz a)) - jy a * (jz b * (jz b * jz b)) <> 0).
      { intros E. apply Ny. apply (cross_y a b A B). exact E. }
      assert (Cy' : jy b' * (jz a' * (jz a' * jz a')) - jy a' * (jz b' * (jz b' * jz b')) <> 0).
      { intros E. apply Ny'. apply (cross_y a' b' A' B'). exact E. }
      left. split; apply is_inf_zero; apply (jac_add_inverse O L); assumption.
  - assert (Nx' : aff_x O a' <> aff_x O b') by congruence.
    destruct (jac_add_spec O L a b A B Nx H2) as [Z [X Y]].
    destruct (jac_add_spec O L a' b' A' B' Nx' H2) as [Z' [X' Y']].
    cbv zeta in *. right. repeat split; try assumption.
    + rewrite X, X', Ax, Ay, Bx, By. reflexivity.
    + rewrite Y, Y', X, X', Ax, Ay, Bx, By. reflexivity.
Qed.

(* commutativity on the elements: a + b and b + a represent the same element, whatever branches the
   two calls take *)
Theorem jac_add_comm a b :
  1 + 1 <> 0 -> (jz a <> 0 -> jy a <> 0) -> (jz b <> 0 -> jy b <> 0) ->
  jeqv (jac_add O a b) (jac_add O b a).
Proof.
  intros H2 Hya Hyb.
  destruct (feq_dec O L (jz a) 0) as [A|A].
  { rewrite (jac_add_inf_l O a b (is_inf_true a A)).
    destruct (feq_dec O L (jz b) 0) as [B|B].
    - rewrite (jac_add_inf_l O b a (is_inf_true b B)). left. split; assumption.
    - rewrite (jac_add_inf_r O b a (is_inf_false b B) (is_inf_true a A)). apply jeqv_refl. }
  destruct (feq_dec O L (jz b) 0) as [B|B].
  { rewrite (jac_add_inf_r O a b (is_inf_false a A) (is_inf_true b B)).
    rewrite (jac_add_inf_l O b a (is_inf_true b B)). apply jeqv_refl. }
  destruct (feq_dec O L (aff_x O a) (aff_x O b)) as [Ex|Nx].
  - pose proof (proj2 (cross_x a b A B) Ex) as Cx. pose proof (proj2 (cross_x b a B A) (eq_sym Ex)) as Cx'.
    destruct (feq_dec O L (aff_y O a) (aff_y O b)) as [Ey|Ny].
    + pose proof (proj2 (cross_y a b A B) Ey) as Cy. pose proof (proj2 (cross_y b a B A) (eq_sym Ey)) as Cy'.
      rewrite (jac_add_same O L a b A B Cx Cy), (jac_add_same O L b a B A Cx' Cy').
      apply jac_double_respects; [exact H2|exact Hya|]. right. repeat split; assumption.
    + assert (Cy : jy b * (jz a * (jz a * jz a)) - jy a * (jz b * (jz b * jz b)) <> 0).
      { intros E. apply Ny. apply (cross_y a b A B). exact E. }
      assert (Cy' : jy a * (jz b * (jz b * jz b)) - jy b * (jz a * (jz a * jz a)) <> 0).
      { intros E. apply Ny. symmetry. apply (cross_y b a B A). exact E. }
      left. split; apply is_inf_zero; apply (jac_add_inverse O L); assumption.
  - assert (Nx' : aff_x O b <> aff_x O a) by congruence.
    destruct (jac_add_spec O L a b A B Nx H2) as [Z [X Y]].
    destruct (jac_add_spec O L b a B A Nx' H2) as [Z' [X' Y']].
    cbv zeta in *. right.
    assert (Dab : aff_x O b - aff_x O a <> 0) by (intros E; apply Nx'; apply (sub_eq_0 O L); exact E).
    assert (Dba : aff_x O a - aff_x O b <> 0) by (intros E; apply Nx; apply (sub_eq_0 O L); exact E).
    assert (EX : aff_x O (jac_add O a b) = aff_x O (jac_add O b a)).
    { rewrite X, X'. field. split; assumption. }
    split; [exact Z|]. split; [exact Z'|]. split; [exact EX|].
    rewrite Y, Y', <- EX, X. field. split; assumption.
Qed.

(* ---------------------------------------------------------------- Neg, MakeAffine *)

Theorem jac_neg_respects a a' : jeqv a a' -> jeqv (jac_neg O a) (jac_neg O a').
Proof.
  intros [[H1 H1']|[H1 [H1' [Hx Hy]]]]; [left; split; assumption|].
  right. unfold jac_neg. cbn [jz]. split; [exact H1|]. split; [exact H1'|]. split.
  - exact Hx.
  - unfold aff_y in *. cbn [jy jz].
    transitivity (- (jy a * / (jz a * jz a * jz a))); [field; exact H1|].
    rewrite Hy. field. exact H1'.
Qed.

(* a finite triple and its normal form represent the same element *)
Theorem make_affine_repr a : jz a <> 0 -> jeqv (make_affine O a) a.
Proof.
  intros Hz. destruct (make_affine_spec O L a Hz) as [Z [X Y]]. cbv zeta in *.
  assert (Z1 : jz (make_affine O a) <> 0) by (rewrite Z; apply (one_neq_zero O L)).
  right. repeat split; try assumption.
  - unfold aff_x at 1. rewrite Z, X. field. apply (one_neq_zero O L).
  - unfold aff_y at 1. rewrite Z, Y. field. apply (one_neq_zero O L).
Qed.

(* hence two triples that represent the same finite element have the SAME normal form: what is
   marshalled does not depend on the representation *)
Theorem make_affine_canonical a a' :
  jz a <> 0 -> jeqv a a' -> make_affine O a = make_affine O a'.
Proof.
  intros Hz [[H _]|[_ [Hz' [Hx Hy]]]]; [contradiction|].
  destruct (make_affine_spec O L a Hz) as [Z [X Y]]. destruct (make_affine_spec O L a' Hz') as [Z' [X' Y']].
  cbv zeta in *. destruct (make_affine O a) as [x y z], (make_affine O a') as [x' y' z']. cbn [jx jy jz] in *.
  congruence.
Qed.

End Repr.
