(* Field.v -- operations records for the scalar field and for a module over it ("group written
   additively, scalars act on it"), their laws as separate records (models depend on the
   operations only, theorems on the laws), and the executable instance Z/qZ. *)
From Coq Require Import ZArith Lia List Bool Field.
Import ListNotations.
Local Open Scope Z_scope.

Record Fops (F : Type) : Type := mkFops {
  f0 : F; f1 : F;
  fadd : F -> F -> F; fmul : F -> F -> F; fsub : F -> F -> F; fopp : F -> F;
  finv : F -> F;                 (* total: finv f0 is unspecified by the laws *)
  feqb : F -> F -> bool;
  fofZ : Z -> F                  (* Scalar.SetInt64 *)
}.
Arguments f0 {F}. Arguments f1 {F}. Arguments fadd {F}. Arguments fmul {F}. Arguments fsub {F}.
Arguments fopp {F}. Arguments finv {F}. Arguments feqb {F}. Arguments fofZ {F}.

Definition fdiv {F} (O : Fops F) (a b : F) : F := fmul O a (finv O b).

Record Flaws {F} (O : Fops F) : Prop := mkFlaws {
  F_th : field_theory (f0 O) (f1 O) (fadd O) (fmul O) (fsub O) (fopp O) (fdiv O) (finv O) eq;
  F_eqb : forall a b, feqb O a b = true <-> a = b
}.

(* Share abscissae: index i is evaluated at fofZ (1+i).  The laws below say that the indices
   0 <= i < nmax give pairwise distinct non-zero abscissae. *)
Record NodeLaws {F} (O : Fops F) (nmax : Z) : Prop := mkNodeLaws {
  node_inj : forall i j, 0 <= i < nmax -> 0 <= j < nmax ->
             fofZ O (1 + i) = fofZ O (1 + j) -> i = j;
  node_nz : forall i, 0 <= i < nmax -> fofZ O (1 + i) <> f0 O
}.

(* A module over F: the additive group the commitments live in. *)
Record Gops (F G : Type) : Type := mkGops {
  g0 : G; gadd : G -> G -> G; gneg : G -> G;
  gscale : F -> G -> G; geqb : G -> G -> bool
}.
Arguments g0 {F G}. Arguments gadd {F G}. Arguments gneg {F G}. Arguments gscale {F G}.
Arguments geqb {F G}.

Record Glaws {F G} (O : Fops F) (M : Gops F G) : Prop := mkGlaws {
  G_add_comm : forall a b, gadd M a b = gadd M b a;
  G_add_assoc : forall a b c, gadd M a (gadd M b c) = gadd M (gadd M a b) c;
  G_add_0_l : forall a, gadd M (g0 M) a = a;
  G_add_neg : forall a, gadd M a (gneg M a) = g0 M;
  G_scale_add_r : forall k a b, gscale M k (gadd M a b) = gadd M (gscale M k a) (gscale M k b);
  G_scale_add_l : forall k l a, gscale M (fadd O k l) a = gadd M (gscale M k a) (gscale M l a);
  G_scale_mul : forall k l a, gscale M (fmul O k l) a = gscale M k (gscale M l a);
  G_scale_1 : forall a, gscale M (f1 O) a = a;
  G_eqb : forall a b, geqb M a b = true <-> a = b
}.

(* A module that is free of rank one with a chosen generator: scaling the generator is injective. *)
Record Gfree {F G} (O : Fops F) (M : Gops F G) (base : G) : Prop := mkGfree {
  G_base_inj : forall k l, gscale M k base = gscale M l base -> k = l
}.

(* ------------------------------------------------------------------------------------------ *)
(* Z/qZ, executable.  Elements are canonical residues with a boolean proof, so that Leibniz
   equality is equality of residues (UIP on bool is provable, no axiom). *)

Section Zq.
Variable q : Z.

Record zq : Type := mkzq { zv : Z; zok : (zv mod q =? zv) = true }.

Lemma zq_of_ok (z : Z) : ((z mod q) mod q =? z mod q) = true.
Proof. apply Z.eqb_eq. apply Zmod_mod. Qed.

Definition zq_of (z : Z) : zq := mkzq (z mod q) (zq_of_ok z).

(* Extended Euclid on (r0, r1) with cofactors of [a] only: invariant r_k = s_k * a (mod q).
   Fuel is the number of division steps; None = fuel exhausted. *)
Fixpoint egcd (fuel : nat) (r0 r1 s0 s1 : Z) : option (Z * Z) :=
  if r1 =? 0 then Some (r0, s0)
  else match fuel with
       | O => None
       | S f => egcd f r1 (r0 mod r1) s1 (s0 - (r0 / r1) * s1)
       end.

(* fuel: twice the bit length of q plus slack; enough because r0*r1 halves at every step. *)
Definition egcd_fuel : nat := S (S (Z.to_nat (2 * Z.log2_up q))).

(* big.Int.ModInverse: Some inverse in [0,q) when gcd = 1, None ("nil") otherwise. *)
Definition modinv_opt (a : Z) : option Z :=
  match egcd egcd_fuel q (a mod q) 0 1 with
  | Some (g, s) => if g =? 1 then Some (s mod q) else None
  | None => None
  end.

Definition modinv (a : Z) : Z := match modinv_opt a with Some x => x | None => 0 end.

Definition zq_ops : Fops zq :=
  {| f0 := zq_of 0; f1 := zq_of 1;
     fadd := fun a b => zq_of (zv a + zv b);
     fmul := fun a b => zq_of (zv a * zv b);
     fsub := fun a b => zq_of (zv a - zv b);
     fopp := fun a => zq_of (- zv a);
     finv := fun a => zq_of (modinv (zv a));
     feqb := fun a b => zv a =? zv b;
     fofZ := zq_of |}.

(* The "discrete-log" module: the group is the field itself, scaling is multiplication. *)
Definition exp_gops : Gops zq zq :=
  {| g0 := zq_of 0;
     gadd := fun a b => zq_of (zv a + zv b);
     gneg := fun a => zq_of (- zv a);
     gscale := fun k a => zq_of (zv k * zv a);
     geqb := fun a b => zv a =? zv b |}.

End Zq.
Arguments zv {q}. 
