(* Val.v -- the interchange value type between the Go driver, the extracted model runner and
   in-Coq evaluation.  Every model entry point has type [list val -> val]. *)
From Coq Require Import ZArith List.
Import ListNotations.

Inductive val : Type :=
| VZ (z : Z)                 (* integer (decimal on the wire: z123) *)
| VB (b : list N)            (* byte string (hex on the wire: bdead) *)
| VL (l : list val)          (* list: ( v1 v2 ... ) *)
| VG (g : N) (d : Z)         (* group element of group g given by its discrete log d: g1:123 *)
| VErr                       (* the implementation returned an error: E *)
| VPanic                     (* the implementation panicked: P *)
| VNone.                     (* nil / absent: N *)

Definition vbool (b : bool) : val := VZ (if b then 1 else 0)%Z.

Definition opt_val {A} (f : A -> val) (o : option A) : val :=
  match o with Some a => f a | None => VErr end.

(* Three-valued result of an implementation call. *)
Inductive res (A : Type) : Type := Ok (a : A) | Err | Panic.
Arguments Ok {A} a. Arguments Err {A}. Arguments Panic {A}.

Definition res_val {A} (f : A -> val) (r : res A) : val :=
  match r with Ok a => f a | Err => VErr | Panic => VPanic end.

Definition res_bind {A B} (r : res A) (f : A -> res B) : res B :=
  match r with Ok a => f a | Err => Err | Panic => Panic end.
