(* QueryLoop.v -- model of DosNode.queryLoop (/repo/dosnode/dos_query_handler.go): the collector
   of signature shares.  Request ids and share payloads are numbers; a request handle r
   identifies one registration (its context and reply channel).
   Environment assumption made explicit: a request that is not cancelled has a reader that takes
   every share offered on its reply channel; a cancelled request has no reader any more, so an
   offer to it resolves through ctx.Done and the share is dropped. *)
From Coq Require Import ZArith NArith List Bool.
From DosVerif Require Import Base.Val.
Import ListNotations.

Inductive ev : Type :=
| Peer (id : N) (s : N)          (* a share for request id arrives from a peer *)
| Register (id : N) (r : N)      (* the local node registers request handle r for id *)
| Cancel (r : N)                 (* r's context is cancelled (the environment, not the loop) *)
| Watchdog.                      (* the 30-minute sweep *)

Record st : Type := mkst {
  buf : list (N * list N);       (* bufSign: id -> shares that arrived before registration *)
  reg : list (N * N);            (* reqSign: id -> request handle *)
  cancelled : list N             (* handles whose context is done *)
}.

Definition st0 : st := mkst [] [] [].

Fixpoint lookup {A} (k : N) (m : list (N * A)) : option A :=
  match m with
  | [] => None
  | (k', v) :: m' => if N.eqb k k' then Some v else lookup k m'
  end.

Fixpoint remove {A} (k : N) (m : list (N * A)) : list (N * A) :=
  match m with
  | [] => []
  | (k', v) :: m' => if N.eqb k k' then remove k m' else (k', v) :: remove k m'
  end.

Definition update {A} (k : N) (v : A) (m : list (N * A)) : list (N * A) := (k, v) :: remove k m.

Definition is_cancelled (s : st) (r : N) : bool := existsb (N.eqb r) (cancelled s).

Definition buf_of (s : st) (id : N) : list N :=
  match lookup id (buf s) with Some l => l | None => [] end.

(* one iteration of the loop (or one environment action); output: deliveries (handle, share) *)
Definition step (s : st) (e : ev) : st * list (N * N) :=
  match e with
  | Peer id x =>
      match lookup id (reg s) with
      | Some r => (s, if is_cancelled s r then [] else [(r, x)])
      | None => (mkst (update id (buf_of s id ++ [x]) (buf s)) (reg s) (cancelled s), [])
      end
  | Register id r =>
      (mkst (remove id (buf s)) (update id r (reg s)) (cancelled s),
       if is_cancelled s r then [] else map (fun x => (r, x)) (buf_of s id))
  | Cancel r => (mkst (buf s) (reg s) (r :: cancelled s), [])
  | Watchdog =>
      let dead := filter (fun kv => is_cancelled s (snd kv)) (reg s) in
      (mkst (fold_left (fun b kv => remove (fst kv) b) dead (buf s))
            (filter (fun kv => negb (is_cancelled s (snd kv))) (reg s))
            (cancelled s), [])
  end.

Fixpoint run (s : st) (es : list ev) : st * list (N * N) :=
  match es with
  | [] => (s, [])
  | e :: es' => let '(s1, o1) := step s e in
                let '(s2, o2) := run s1 es' in (s2, o1 ++ o2)
  end.

Definition deliveries_to (r : N) (out : list (N * N)) : list N :=
  map snd (filter (fun d => N.eqb (fst d) r) out).

(* The lookup as it was before the repair: a missing key yields the zero request, whose id is
   the empty string (modelled as id 0) and whose context is nil -- a share with an empty request
   id that arrives while nothing is registered for it is "delivered" through a nil context. *)
Definition step_old (s : st) (e : ev) : res (st * list (N * N)) :=
  match e with
  | Peer id x =>
      match lookup id (reg s) with
      | Some r => Ok (step s e)
      | None => if N.eqb id 0 then Panic else Ok (step s e)
      end
  | _ => Ok (step s e)
  end.

Fixpoint run_old (s : st) (es : list ev) : res (st * list (N * N)) :=
  match es with
  | [] => Ok (s, [])
  | e :: es' => match step_old s e with
                | Ok (s1, o1) => match run_old s1 es' with
                                 | Ok (s2, o2) => Ok (s2, o1 ++ o2)
                                 | r => r
                                 end
                | Err => Err
                | Panic => Panic
                end
  end.

(* wire: events ( (z0 id s) | (z1 id r) | (z2 r) | (z3) ), handles to report *)
Definition dec_ev (v : val) : ev :=
  match v with
  | VL [VZ 0; VZ id; VZ x] => Peer (Z.to_N id) (Z.to_N x)
  | VL [VZ 1; VZ id; VZ r] => Register (Z.to_N id) (Z.to_N r)
  | VL [VZ 2; VZ r] => Cancel (Z.to_N r)
  | _ => Watchdog
  end.

Definition entry_queryloop (op : Z) (args : list val) : val :=
  match op, args with
  | 1%Z, [VL evs; VL handles] =>
      let '(_, out) := run st0 (map dec_ev evs) in
      VL (map (fun h => match h with
                        | VZ r => VL [VZ r; VL (map (fun x => VZ (Z.of_N x)) (deliveries_to (Z.to_N r) out))]
                        | _ => VErr end) handles)
  | 2%Z, [VL evs; VL handles] =>
      match run_old st0 (map dec_ev evs) with
      | Ok (_, out) =>
        VL (map (fun h => match h with
                          | VZ r => VL [VZ r; VL (map (fun x => VZ (Z.of_N x)) (deliveries_to (Z.to_N r) out))]
                          | _ => VErr end) handles)
      | Err => VErr
      | Panic => VPanic
      end
  | _, _ => VErr
  end.
