(* PipeNetsOld.v -- the networks translate/skel produced from /repo BEFORE the repairs recorded in
   known_findings.json (C14), kept as a fixed file: Properties/C14.v shows that the checker rejects them. *)
From Coq Require Import List.
From DosVerif Require Import Models.Pipes.
Import ListNotations.

(* ---- network old_net_grouping ---- *)
(* chan 0: pdkg_pipes.go:23 cap=0 closer=1 owed=true *)
(* chan 1: pdkg_pipes.go:24 cap=0 closer=-1 owed=true *)
(* chan 2: pdkg_pipes.go:25 cap=0 closer=1 owed=true *)
(* chan 3: pdkg.go:300 cap=0 closer=2 owed=true *)
(* chan 4: pdkg.go:300 cap=0 closer=2 owed=true *)
(* chan 5: pdkg_pipes.go:131 cap=0 closer=3 owed=true *)
(* chan 6: pdkg_pipes.go:179 cap=1 closer=5 owed=false *)
(* chan 7: env:bufToNode@pdkg_pipes.go:187 cap=0 closer=-1 owed=false *)
(* chan 8: pdkg_pipes.go:72 cap=0 closer=7 owed=true *)
(* chan 9: pdkg_pipes.go:73 cap=0 closer=7 owed=true *)
(* chan 10: pdkg_pipes.go:194 cap=0 closer=8 owed=true *)
(* chan 11: pdkg_pipes.go:195 cap=0 closer=8 owed=true *)
(* chan 12: pdkg_pipes.go:254 cap=0 closer=9 owed=true *)
(* chan 13: pdkg_pipes.go:255 cap=0 closer=9 owed=true *)
(* chan 14: pdkg_pipes.go:179 cap=1 closer=11 owed=false *)
(* chan 15: env:bufToNode@pdkg_pipes.go:187 cap=0 closer=-1 owed=false *)
(* chan 16: pdkg_pipes.go:310 cap=0 closer=13 owed=true *)
(* chan 17: pdkg_pipes.go:311 cap=0 closer=13 owed=true *)
(* chan 18: pdkg_pipes.go:312 cap=0 closer=13 owed=true *)
(* chan 19: pdkg_pipes.go:131 cap=0 closer=14 owed=true *)
(* chan 20: pdkg_pipes.go:179 cap=1 closer=16 owed=false *)
(* chan 21: env:bufToNode@pdkg_pipes.go:187 cap=0 closer=-1 owed=false *)
(* chan 22: pdkg_pipes.go:376 cap=0 closer=18 owed=true *)
(* chan 23: pdkg_pipes.go:377 cap=0 closer=18 owed=true *)
(* chan 24: pdkg_pipes.go:419 cap=0 closer=19 owed=true *)
(* chan 25: pdkg_pipes.go:420 cap=0 closer=19 owed=true *)
(* chan 26: pdkg.go:322 cap=9 closer=29 owed=true *)
(* chan 27: dos_stages.go:445 cap=0 closer=30 owed=true *)
(* chan 28: dos_stages.go:40 cap=2 closer=33 owed=true *)
(* process 0: root:handleGrouping  rank 0 *)
Definition old_net_grouping_p0 : proc := mkproc
  [(* 0 root *) NTau [1];
   (* 1 dos_chain_handler.go:240 *) NLoop 11 10;
   (* 2  *) NExit;
   (* 3 dos_chain_handler.go:255 *) NCancel 2;
   (* 4 dos_chain_handler.go:267 *) NTau [8];
   (* 5 dos_chain_handler.go:255 *) NCancel 2;
   (* 6 dos_chain_handler.go:270 *) NTau [5; 4];
   (* 7 dos_chain_handler.go:255 *) NCancel 2;
   (* 8 dos_chain_handler.go:268 *) NSel [ARecv 28 6 6] (Some 7) None;
   (* 9 pdkg.go:191 *) NTau [3; 4];
   (* 10 dos_chain_handler.go:246 *) NTau [2; 9];
   (* 11 dos_chain_handler.go:241 *) NTau [10; 1]]
  0
  [7; 6; 0; 1; 3; 1; 4; 1; 2; 4; 5; 7]
  [[]; []; []; []; []; []; []; []; []; []; []; []]
  [[]; []; []; []; []; []; []; []; []; []; []; []].
(* process 1: go@pdkg_pipes.go:26  rank 0 *)
Definition old_net_grouping_p1 : proc := mkproc
  [(* 0 go@pdkg_pipes.go:26 *) NTau [1];
   (* 1 pdkg_pipes.go:36 *) NLoop 17 16;
   (* 2  *) NExit;
   (* 3 pdkg_pipes.go:28 *) NClose 0 2;
   (* 4 pdkg_pipes.go:29 *) NClose 2 3;
   (* 5 pdkg.go:290 *) NSel [ASend 2 4] (Some 4) None;
   (* 6 pdkg_pipes.go:28 *) NClose 0 2;
   (* 7 pdkg_pipes.go:29 *) NClose 2 6;
   (* 8 pdkg.go:290 *) NSel [ASend 2 7] (Some 7) None;
   (* 9 pdkg_pipes.go:28 *) NClose 0 2;
   (* 10 pdkg_pipes.go:29 *) NClose 2 9;
   (* 11 pdkg_pipes.go:62 *) NSel [ASend 0 10] (Some 10) None;
   (* 12 pdkg_pipes.go:56 *) NTau [8; 11];
   (* 13 pdkg_pipes.go:28 *) NClose 0 2;
   (* 14 pdkg_pipes.go:29 *) NClose 2 13;
   (* 15 pdkg_pipes.go:49 *) NSel [ASend 1 12] (Some 14) None;
   (* 16 pdkg_pipes.go:42 *) NTau [5; 15];
   (* 17 pdkg_pipes.go:37 *) NTau [16; 1]]
  0
  [6; 5; 0; 1; 2; 3; 1; 2; 3; 1; 2; 3; 4; 1; 2; 3; 4; 6]
  [[]; []; [EClosed 0; EClosed 2]; [EClosed 2]; []; []; [EClosed 2]; []; []; [EClosed 2]; []; []; []; [EClosed 2]; []; []; []; []]
  [[]; []; [EClosed 0; EClosed 2]; [EClosed 2]; []; []; [EClosed 2]; []; []; [EClosed 2]; []; []; []; [EClosed 2]; []; []; []; []].
(* process 2: go@pdkg.go:302  rank 1 *)
Definition old_net_grouping_p2 : proc := mkproc
  [(* 0 go@pdkg.go:302 *) NTau [1];
   (* 1 pdkg.go:303 *) NSel [ARecv 0 3 6] None None;
   (* 2 pdkg.go:305 *) NSel [ASend 4 1] (Some 1) None;
   (* 3 pdkg.go:305 *) NSel [ASend 3 2] (Some 2) None;
   (* 4  *) NExit;
   (* 5 pdkg.go:313 *) NClose 4 4;
   (* 6 pdkg.go:313 *) NClose 3 5]
  1
  [4; 3; 4; 5; 0; 1; 2]
  [[]; []; []; []; [EClosed 3; EClosed 4]; [EClosed 3]; []]
  [[]; []; []; []; [EClosed 3; EClosed 4]; [EClosed 3]; []].
(* process 3: go@pdkg_pipes.go:132  rank 0 *)
Definition old_net_grouping_p3 : proc := mkproc
  [(* 0 go@pdkg_pipes.go:132 *) NTau [6];
   (* 1  *) NExit;
   (* 2 pdkg_pipes.go:134 *) NClose 5 1;
   (* 3 pdkg_pipes.go:144 *) NLoop 3 2;
   (* 4 pdkg_pipes.go:141 *) NTau [3; 2];
   (* 5 pdkg_pipes.go:138 *) NTau [4; 2];
   (* 6 pdkg_pipes.go:135 *) NSel [ARecv 3 5 5] (Some 2) None]
  0
  [3; 0; 1; 2; 3; 4; 2]
  [[]; [EClosed 5]; []; []; []; []; []]
  [[]; [EClosed 5]; []; []; []; []; []].
(* process 4: go@pdkg_pipes.go:146  rank 0 *)
Definition old_net_grouping_p4 : proc := mkproc
  [(* 0 go@pdkg_pipes.go:146 *) NTau [1];
   (* 1 pdkg_pipes.go:148 *) NTau [4];
   (* 2  *) NExit;
   (* 3 pdkg_pipes.go:153 *) NTau [1; 2];
   (* 4 pdkg_pipes.go:149 *) NSel [] (Some 2) (Some 3)]
  0
  [3; 2; 0; 3; 1]
  [[]; []; []; []; []]
  [[]; []; []; []; []].
(* process 5: go@pdkg_pipes.go:180  rank 0 *)
Definition old_net_grouping_p5 : proc := mkproc
  [(* 0 go@pdkg_pipes.go:180 *) NTau [5];
   (* 1  *) NExit;
   (* 2 env: pdkg.Loop close(reply) *) NClose 6 1;
   (* 3 env: pdkg.Loop delivers the batch *) NSel [ASend 6 2] (Some 2) None;
   (* 4 env: batch complete or never *) NTau [1; 3];
   (* 5 pdkg_pipes.go:185 *) NSel [ASend 7 4] (Some 1) None]
  0
  [2; 0; 1; 2; 3; 1]
  [[]; []; []; []; []; []]
  [[]; [EClosed 6]; []; []; []; []].
(* process 6: env-accept:bufToNode@pdkg_pipes.go:187  rank 0 *)
Definition old_net_grouping_p6 : proc := mkproc
  [(* 0  *) NSel [ARecv 7 1 1] (Some 1) None;
   (* 1  *) NExit]
  0
  [1; 0]
  [[]; []]
  [[]; []].
(* process 7: go@pdkg_pipes.go:74  rank 0 *)
Definition old_net_grouping_p7 : proc := mkproc
  [(* 0 go@pdkg_pipes.go:74 *) NTau [27];
   (* 1  *) NExit;
   (* 2 pdkg_pipes.go:77 *) NClose 8 1;
   (* 3 pdkg_pipes.go:78 *) NClose 9 2;
   (* 4 pdkg_pipes.go:77 *) NClose 8 1;
   (* 5 pdkg_pipes.go:78 *) NClose 9 4;
   (* 6 pdkg_pipes.go:77 *) NClose 8 1;
   (* 7 pdkg_pipes.go:78 *) NClose 9 6;
   (* 8 pdkg.go:290 *) NSel [ASend 9 7] (Some 7) None;
   (* 9 pdkg_pipes.go:99 *) NTau [24];
   (* 10 pdkg_pipes.go:77 *) NClose 8 1;
   (* 11 pdkg_pipes.go:78 *) NClose 9 10;
   (* 12 pdkg_pipes.go:77 *) NClose 8 1;
   (* 13 pdkg_pipes.go:78 *) NClose 9 12;
   (* 14 pdkg_pipes.go:108 *) NLoop 18 22;
   (* 15 pdkg_pipes.go:77 *) NClose 8 1;
   (* 16 pdkg_pipes.go:78 *) NClose 9 15;
   (* 17 pdkg.go:290 *) NSel [ASend 9 16] (Some 16) None;
   (* 18 pdkg_pipes.go:110 *) NTau [17; 14];
   (* 19 pdkg_pipes.go:77 *) NClose 8 1;
   (* 20 pdkg_pipes.go:78 *) NClose 9 19;
   (* 21 pdkg_pipes.go:119 *) NSel [ASend 8 20] (Some 20) None;
   (* 22 pdkg_pipes.go:118 *) NTau [21; 9];
   (* 23 pdkg_pipes.go:104 *) NTau [13; 14];
   (* 24 pdkg_pipes.go:100 *) NSel [ARecv 6 23 23] (Some 11) None;
   (* 25 pdkg_pipes.go:91 *) NTau [8; 9];
   (* 26 pdkg_pipes.go:85 *) NTau [5; 25];
   (* 27 pdkg_pipes.go:81 *) NSel [ARecv 4 26 26] (Some 3) None]
  0
  [4; 0; 1; 2; 1; 2; 1; 2; 3; 4; 1; 2; 1; 2; 6; 1; 2; 3; 7; 1; 2; 3; 5; 7; 3; 5; 6; 3]
  [[]; [EClosed 8; EClosed 9]; [EClosed 9]; []; [EClosed 9]; []; [EClosed 9]; []; []; []; [EClosed 9]; []; [EClosed 9]; []; []; [EClosed 9]; []; []; []; [EClosed 9]; []; []; []; []; []; []; []; []]
  [[]; [EClosed 8; EClosed 9]; [EClosed 9]; []; [EClosed 9]; []; [EClosed 9]; []; []; []; [EClosed 9]; []; [EClosed 9]; []; []; [EClosed 9]; []; []; []; [EClosed 9]; []; []; []; []; []; []; []; []].
(* process 8: go@pdkg_pipes.go:196  rank 0 *)
Definition old_net_grouping_p8 : proc := mkproc
  [(* 0 go@pdkg_pipes.go:196 *) NTau [27];
   (* 1  *) NExit;
   (* 2 pdkg_pipes.go:198 *) NClose 10 1;
   (* 3 pdkg_pipes.go:199 *) NClose 11 2;
   (* 4 pdkg_pipes.go:212 *) NLoop 16 23;
   (* 5 pdkg_pipes.go:198 *) NClose 10 1;
   (* 6 pdkg_pipes.go:199 *) NClose 11 5;
   (* 7 pdkg.go:290 *) NSel [ASend 11 6] (Some 6) None;
   (* 8 pdkg_pipes.go:198 *) NClose 10 1;
   (* 9 pdkg_pipes.go:199 *) NClose 11 8;
   (* 10 pdkg.go:290 *) NSel [ASend 11 9] (Some 9) None;
   (* 11 pdkg_pipes.go:198 *) NClose 10 1;
   (* 12 pdkg_pipes.go:199 *) NClose 11 11;
   (* 13 pdkg.go:290 *) NSel [ASend 11 12] (Some 12) None;
   (* 14 pdkg_pipes.go:224 *) NTau [13; 4];
   (* 15 pdkg_pipes.go:218 *) NTau [10; 14];
   (* 16 pdkg_pipes.go:213 *) NTau [7; 15];
   (* 17 pdkg_pipes.go:198 *) NClose 10 1;
   (* 18 pdkg_pipes.go:199 *) NClose 11 17;
   (* 19 pdkg.go:290 *) NSel [ASend 11 18] (Some 18) None;
   (* 20 pdkg_pipes.go:198 *) NClose 10 1;
   (* 21 pdkg_pipes.go:199 *) NClose 11 20;
   (* 22 pdkg_pipes.go:237 *) NSel [ASend 10 21] (Some 21) None;
   (* 23 pdkg_pipes.go:232 *) NTau [19; 22];
   (* 24 pdkg_pipes.go:208 *) NTau [4; 3];
   (* 25 pdkg_pipes.go:204 *) NSel [ARecv 8 24 24] (Some 3) None;
   (* 26 pdkg_pipes.go:203 *) NTau [25; 3];
   (* 27 pdkg_pipes.go:200 *) NSel [ARecv 1 26 26] (Some 3) None]
  0
  [4; 0; 1; 2; 5; 1; 2; 3; 1; 2; 3; 1; 2; 3; 6; 7; 8; 1; 2; 3; 1; 2; 3; 4; 6; 3; 4; 3]
  [[]; [EClosed 10; EClosed 11]; [EClosed 11]; []; []; [EClosed 11]; []; []; [EClosed 11]; []; []; [EClosed 11]; []; []; []; []; []; [EClosed 11]; []; []; [EClosed 11]; []; []; []; []; []; []; []]
  [[]; [EClosed 10; EClosed 11]; [EClosed 11]; []; []; [EClosed 11]; []; []; [EClosed 11]; []; []; [EClosed 11]; []; []; []; []; []; [EClosed 11]; []; []; [EClosed 11]; []; []; []; []; []; []; []].
(* process 9: go@pdkg_pipes.go:256  rank 0 *)
Definition old_net_grouping_p9 : proc := mkproc
  [(* 0 go@pdkg_pipes.go:256 *) NTau [11];
   (* 1  *) NExit;
   (* 2 pdkg_pipes.go:259 *) NClose 12 1;
   (* 3 pdkg_pipes.go:260 *) NClose 13 2;
   (* 4 pdkg_pipes.go:259 *) NClose 12 1;
   (* 5 pdkg_pipes.go:260 *) NClose 13 4;
   (* 6 pdkg.go:290 *) NSel [ASend 13 5] (Some 5) None;
   (* 7 pdkg_pipes.go:277 *) NLoop 7 8;
   (* 8 pdkg_pipes.go:300 *) NSel [ASend 12 3] (Some 3) None;
   (* 9 pdkg_pipes.go:268 *) NTau [6; 7];
   (* 10 pdkg_pipes.go:264 *) NTau [9; 3];
   (* 11 pdkg_pipes.go:261 *) NSel [ARecv 10 10 10] (Some 3) None]
  0
  [4; 0; 1; 2; 1; 2; 3; 4; 3; 5; 6; 3]
  [[]; [EClosed 12; EClosed 13]; [EClosed 13]; []; [EClosed 13]; []; []; []; []; []; []; []]
  [[]; [EClosed 12; EClosed 13]; [EClosed 13]; []; [EClosed 13]; []; []; []; []; []; []; []].
(* process 10: go@pdkg_pipes.go:279  rank 0 *)
Definition old_net_grouping_p10 : proc := mkproc
  [(* 0 go@pdkg_pipes.go:279 *) NTau [1];
   (* 1 pdkg_pipes.go:281 *) NTau [4];
   (* 2  *) NExit;
   (* 3 pdkg_pipes.go:286 *) NTau [1; 2];
   (* 4 pdkg_pipes.go:282 *) NSel [] (Some 2) (Some 3)]
  0
  [3; 2; 0; 3; 1]
  [[]; []; []; []; []]
  [[]; []; []; []; []].
(* process 11: go@pdkg_pipes.go:180  rank 0 *)
Definition old_net_grouping_p11 : proc := mkproc
  [(* 0 go@pdkg_pipes.go:180 *) NTau [5];
   (* 1  *) NExit;
   (* 2 env: pdkg.Loop close(reply) *) NClose 14 1;
   (* 3 env: pdkg.Loop delivers the batch *) NSel [ASend 14 2] (Some 2) None;
   (* 4 env: batch complete or never *) NTau [1; 3];
   (* 5 pdkg_pipes.go:185 *) NSel [ASend 15 4] (Some 1) None]
  0
  [2; 0; 1; 2; 3; 1]
  [[]; []; []; []; []; []]
  [[]; [EClosed 14]; []; []; []; []].
(* process 12: env-accept:bufToNode@pdkg_pipes.go:187  rank 0 *)
Definition old_net_grouping_p12 : proc := mkproc
  [(* 0  *) NSel [ARecv 15 1 1] (Some 1) None;
   (* 1  *) NExit]
  0
  [1; 0]
  [[]; []]
  [[]; []].
(* process 13: go@pdkg_pipes.go:313  rank 0 *)
Definition old_net_grouping_p13 : proc := mkproc
  [(* 0 go@pdkg_pipes.go:313 *) NTau [29];
   (* 1  *) NExit;
   (* 2 pdkg_pipes.go:318 *) NClose 16 1;
   (* 3 pdkg_pipes.go:319 *) NClose 17 2;
   (* 4 pdkg_pipes.go:320 *) NClose 18 3;
   (* 5 pdkg_pipes.go:336 *) NLoop 17 22;
   (* 6 pdkg_pipes.go:318 *) NClose 16 1;
   (* 7 pdkg_pipes.go:319 *) NClose 17 6;
   (* 8 pdkg_pipes.go:320 *) NClose 18 7;
   (* 9 pdkg.go:290 *) NSel [ASend 18 8] (Some 8) None;
   (* 10 pdkg.go:290 *) NSel [ASend 18 5] (Some 5) None;
   (* 11 pdkg_pipes.go:318 *) NClose 16 1;
   (* 12 pdkg_pipes.go:319 *) NClose 17 11;
   (* 13 pdkg_pipes.go:320 *) NClose 18 12;
   (* 14 pdkg.go:290 *) NSel [ASend 18 13] (Some 13) None;
   (* 15 pdkg_pipes.go:351 *) NTau [14; 5];
   (* 16 pdkg_pipes.go:344 *) NTau [10; 15];
   (* 17 pdkg_pipes.go:338 *) NTau [9; 16];
   (* 18 pdkg_pipes.go:318 *) NClose 16 1;
   (* 19 pdkg_pipes.go:319 *) NClose 17 18;
   (* 20 pdkg_pipes.go:320 *) NClose 18 19;
   (* 21 pdkg_pipes.go:365 *) NSel [ASend 16 4] (Some 4) None;
   (* 22 pdkg_pipes.go:359 *) NSel [ASend 17 21] (Some 20) None;
   (* 23 pdkg_pipes.go:333 *) NTau [5; 4];
   (* 24 pdkg_pipes.go:330 *) NSel [ARecv 14 23 23] (Some 4) None;
   (* 25 pdkg_pipes.go:318 *) NClose 16 1;
   (* 26 pdkg_pipes.go:319 *) NClose 17 25;
   (* 27 pdkg_pipes.go:320 *) NClose 18 26;
   (* 28 pdkg_pipes.go:324 *) NTau [27; 24];
   (* 29 pdkg_pipes.go:321 *) NSel [ARecv 12 28 28] (Some 24) None]
  0
  [6; 0; 1; 2; 3; 5; 1; 2; 3; 4; 6; 1; 2; 3; 4; 6; 7; 8; 1; 2; 3; 4; 4; 6; 4; 1; 2; 3; 5; 5]
  [[]; [EClosed 16; EClosed 17; EClosed 18]; [EClosed 17; EClosed 18]; [EClosed 18]; []; []; [EClosed 17; EClosed 18]; [EClosed 18]; []; []; []; [EClosed 17; EClosed 18]; [EClosed 18]; []; []; []; []; []; [EClosed 17; EClosed 18]; [EClosed 18]; []; []; []; []; []; [EClosed 17; EClosed 18]; [EClosed 18]; []; []; []]
  [[]; [EClosed 16; EClosed 17; EClosed 18]; [EClosed 17; EClosed 18]; [EClosed 18]; []; []; [EClosed 17; EClosed 18]; [EClosed 18]; []; []; []; [EClosed 17; EClosed 18]; [EClosed 18]; []; []; []; []; []; [EClosed 17; EClosed 18]; [EClosed 18]; []; []; []; []; []; [EClosed 17; EClosed 18]; [EClosed 18]; []; []; []].
(* process 14: go@pdkg_pipes.go:132  rank 0 *)
Definition old_net_grouping_p14 : proc := mkproc
  [(* 0 go@pdkg_pipes.go:132 *) NTau [6];
   (* 1  *) NExit;
   (* 2 pdkg_pipes.go:134 *) NClose 19 1;
   (* 3 pdkg_pipes.go:144 *) NLoop 3 2;
   (* 4 pdkg_pipes.go:141 *) NTau [3; 2];
   (* 5 pdkg_pipes.go:138 *) NTau [4; 2];
   (* 6 pdkg_pipes.go:135 *) NSel [ARecv 17 5 5] (Some 2) None]
  0
  [3; 0; 1; 2; 3; 4; 2]
  [[]; [EClosed 19]; []; []; []; []; []]
  [[]; [EClosed 19]; []; []; []; []; []].
(* process 15: go@pdkg_pipes.go:146  rank 0 *)
Definition old_net_grouping_p15 : proc := mkproc
  [(* 0 go@pdkg_pipes.go:146 *) NTau [1];
   (* 1 pdkg_pipes.go:148 *) NTau [4];
   (* 2  *) NExit;
   (* 3 pdkg_pipes.go:153 *) NTau [1; 2];
   (* 4 pdkg_pipes.go:149 *) NSel [] (Some 2) (Some 3)]
  0
  [3; 2; 0; 3; 1]
  [[]; []; []; []; []]
  [[]; []; []; []; []].
(* process 16: go@pdkg_pipes.go:180  rank 0 *)
Definition old_net_grouping_p16 : proc := mkproc
  [(* 0 go@pdkg_pipes.go:180 *) NTau [5];
   (* 1  *) NExit;
   (* 2 env: pdkg.Loop close(reply) *) NClose 20 1;
   (* 3 env: pdkg.Loop delivers the batch *) NSel [ASend 20 2] (Some 2) None;
   (* 4 env: batch complete or never *) NTau [1; 3];
   (* 5 pdkg_pipes.go:185 *) NSel [ASend 21 4] (Some 1) None]
  0
  [2; 0; 1; 2; 3; 1]
  [[]; []; []; []; []; []]
  [[]; [EClosed 20]; []; []; []; []].
(* process 17: env-accept:bufToNode@pdkg_pipes.go:187  rank 0 *)
Definition old_net_grouping_p17 : proc := mkproc
  [(* 0  *) NSel [ARecv 21 1 1] (Some 1) None;
   (* 1  *) NExit]
  0
  [1; 0]
  [[]; []]
  [[]; []].
(* process 18: go@pdkg_pipes.go:378  rank 0 *)
Definition old_net_grouping_p18 : proc := mkproc
  [(* 0 go@pdkg_pipes.go:378 *) NTau [19];
   (* 1  *) NExit;
   (* 2 pdkg_pipes.go:379 *) NClose 22 1;
   (* 3 pdkg_pipes.go:380 *) NClose 23 2;
   (* 4 pdkg_pipes.go:395 *) NLoop 12 13;
   (* 5 pdkg_pipes.go:379 *) NClose 22 1;
   (* 6 pdkg_pipes.go:380 *) NClose 23 5;
   (* 7 pdkg.go:290 *) NSel [ASend 23 6] (Some 6) None;
   (* 8 pdkg_pipes.go:379 *) NClose 22 1;
   (* 9 pdkg_pipes.go:380 *) NClose 23 8;
   (* 10 pdkg.go:290 *) NSel [ASend 23 9] (Some 9) None;
   (* 11 pdkg_pipes.go:402 *) NTau [10; 4];
   (* 12 pdkg_pipes.go:397 *) NTau [7; 11];
   (* 13 pdkg_pipes.go:409 *) NSel [ASend 22 3] (Some 3) None;
   (* 14 pdkg_pipes.go:394 *) NTau [4; 3];
   (* 15 pdkg_pipes.go:391 *) NSel [ARecv 20 14 14] (Some 3) None;
   (* 16 pdkg_pipes.go:379 *) NClose 22 1;
   (* 17 pdkg_pipes.go:380 *) NClose 23 16;
   (* 18 pdkg_pipes.go:386 *) NTau [17; 15];
   (* 19 pdkg_pipes.go:383 *) NSel [ARecv 16 18 18] (Some 15) None]
  0
  [5; 0; 1; 2; 4; 1; 2; 3; 1; 2; 3; 5; 6; 3; 5; 3; 1; 2; 4; 4]
  [[]; [EClosed 22; EClosed 23]; [EClosed 23]; []; []; [EClosed 23]; []; []; [EClosed 23]; []; []; []; []; []; []; []; [EClosed 23]; []; []; []]
  [[]; [EClosed 22; EClosed 23]; [EClosed 23]; []; []; [EClosed 23]; []; []; [EClosed 23]; []; []; []; []; []; []; []; [EClosed 23]; []; []; []].
(* process 19: go@pdkg_pipes.go:421  rank 0 *)
Definition old_net_grouping_p19 : proc := mkproc
  [(* 0 go@pdkg_pipes.go:421 *) NTau [22];
   (* 1  *) NExit;
   (* 2 pdkg_pipes.go:424 *) NClose 24 1;
   (* 3 pdkg_pipes.go:425 *) NClose 25 2;
   (* 4 pdkg_pipes.go:424 *) NClose 24 1;
   (* 5 pdkg_pipes.go:425 *) NClose 25 4;
   (* 6 pdkg.go:290 *) NSel [ASend 25 5] (Some 5) None;
   (* 7 pdkg_pipes.go:424 *) NClose 24 1;
   (* 8 pdkg_pipes.go:425 *) NClose 25 7;
   (* 9 pdkg.go:290 *) NSel [ASend 25 8] (Some 8) None;
   (* 10 pdkg_pipes.go:424 *) NClose 24 1;
   (* 11 pdkg_pipes.go:425 *) NClose 25 10;
   (* 12 pdkg.go:290 *) NSel [ASend 25 11] (Some 11) None;
   (* 13 pdkg_pipes.go:424 *) NClose 24 1;
   (* 14 pdkg_pipes.go:425 *) NClose 25 13;
   (* 15 pdkg.go:290 *) NSel [ASend 25 14] (Some 14) None;
   (* 16 pdkg_pipes.go:460 *) NSel [ASend 24 3] (Some 3) None;
   (* 17 pdkg_pipes.go:453 *) NTau [15; 16];
   (* 18 pdkg_pipes.go:447 *) NTau [12; 17];
   (* 19 pdkg_pipes.go:438 *) NTau [9; 18];
   (* 20 pdkg_pipes.go:432 *) NTau [6; 19];
   (* 21 pdkg_pipes.go:430 *) NTau [20; 3];
   (* 22 pdkg_pipes.go:426 *) NSel [ARecv 22 21 21] (Some 3) None]
  0
  [4; 0; 1; 2; 1; 2; 3; 1; 2; 3; 1; 2; 3; 1; 2; 3; 3; 4; 5; 6; 7; 8; 3]
  [[]; [EClosed 24; EClosed 25]; [EClosed 25]; []; [EClosed 25]; []; []; [EClosed 25]; []; []; [EClosed 25]; []; []; [EClosed 25]; []; []; []; []; []; []; []; []; []]
  [[]; [EClosed 24; EClosed 25]; [EClosed 25]; []; [EClosed 25]; []; []; [EClosed 25]; []; []; [EClosed 25]; []; []; [EClosed 25]; []; []; []; []; []; []; []; []; []].
(* process 20: go@pdkg.go:333  rank 1 *)
Definition old_net_grouping_p20 : proc := mkproc
  [(* 0 go@pdkg.go:333 *) NTau [1];
   (* 1 pdkg.go:324 *) NSel [ARecv 2 2 4] None None;
   (* 2 pdkg.go:325 *) NSel [ASend 26 1] None None;
   (* 3  *) NExit;
   (* 4 pdkg.go:329 *) NWgDone 0 3]
  1
  [3; 2; 3; 0; 1]
  [[]; []; []; [EDone 0]; []]
  [[]; []; []; [EDone 0]; []].
(* process 21: go@pdkg.go:333  rank 1 *)
Definition old_net_grouping_p21 : proc := mkproc
  [(* 0 go@pdkg.go:333 *) NTau [1];
   (* 1 pdkg.go:324 *) NSel [ARecv 5 2 4] None None;
   (* 2 pdkg.go:325 *) NSel [ASend 26 1] None None;
   (* 3  *) NExit;
   (* 4 pdkg.go:329 *) NWgDone 0 3]
  1
  [3; 2; 3; 0; 1]
  [[]; []; []; [EDone 0]; []]
  [[]; []; []; [EDone 0]; []].
(* process 22: go@pdkg.go:333  rank 1 *)
Definition old_net_grouping_p22 : proc := mkproc
  [(* 0 go@pdkg.go:333 *) NTau [1];
   (* 1 pdkg.go:324 *) NSel [ARecv 2 2 4] None None;
   (* 2 pdkg.go:325 *) NSel [ASend 26 1] None None;
   (* 3  *) NExit;
   (* 4 pdkg.go:329 *) NWgDone 0 3]
  1
  [3; 2; 3; 0; 1]
  [[]; []; []; [EDone 0]; []]
  [[]; []; []; [EDone 0]; []].
(* process 23: go@pdkg.go:333  rank 1 *)
Definition old_net_grouping_p23 : proc := mkproc
  [(* 0 go@pdkg.go:333 *) NTau [1];
   (* 1 pdkg.go:324 *) NSel [ARecv 9 2 4] None None;
   (* 2 pdkg.go:325 *) NSel [ASend 26 1] None None;
   (* 3  *) NExit;
   (* 4 pdkg.go:329 *) NWgDone 0 3]
  1
  [3; 2; 3; 0; 1]
  [[]; []; []; [EDone 0]; []]
  [[]; []; []; [EDone 0]; []].
(* process 24: go@pdkg.go:333  rank 1 *)
Definition old_net_grouping_p24 : proc := mkproc
  [(* 0 go@pdkg.go:333 *) NTau [1];
   (* 1 pdkg.go:324 *) NSel [ARecv 11 2 4] None None;
   (* 2 pdkg.go:325 *) NSel [ASend 26 1] None None;
   (* 3  *) NExit;
   (* 4 pdkg.go:329 *) NWgDone 0 3]
  1
  [3; 2; 3; 0; 1]
  [[]; []; []; [EDone 0]; []]
  [[]; []; []; [EDone 0]; []].
(* process 25: go@pdkg.go:333  rank 1 *)
Definition old_net_grouping_p25 : proc := mkproc
  [(* 0 go@pdkg.go:333 *) NTau [1];
   (* 1 pdkg.go:324 *) NSel [ARecv 13 2 4] None None;
   (* 2 pdkg.go:325 *) NSel [ASend 26 1] None None;
   (* 3  *) NExit;
   (* 4 pdkg.go:329 *) NWgDone 0 3]
  1
  [3; 2; 3; 0; 1]
  [[]; []; []; [EDone 0]; []]
  [[]; []; []; [EDone 0]; []].
(* process 26: go@pdkg.go:333  rank 1 *)
Definition old_net_grouping_p26 : proc := mkproc
  [(* 0 go@pdkg.go:333 *) NTau [1];
   (* 1 pdkg.go:324 *) NSel [ARecv 18 2 4] None None;
   (* 2 pdkg.go:325 *) NSel [ASend 26 1] None None;
   (* 3  *) NExit;
   (* 4 pdkg.go:329 *) NWgDone 0 3]
  1
  [3; 2; 3; 0; 1]
  [[]; []; []; [EDone 0]; []]
  [[]; []; []; [EDone 0]; []].
(* process 27: go@pdkg.go:333  rank 1 *)
Definition old_net_grouping_p27 : proc := mkproc
  [(* 0 go@pdkg.go:333 *) NTau [1];
   (* 1 pdkg.go:324 *) NSel [ARecv 19 2 4] None None;
   (* 2 pdkg.go:325 *) NSel [ASend 26 1] None None;
   (* 3  *) NExit;
   (* 4 pdkg.go:329 *) NWgDone 0 3]
  1
  [3; 2; 3; 0; 1]
  [[]; []; []; [EDone 0]; []]
  [[]; []; []; [EDone 0]; []].
(* process 28: go@pdkg.go:333  rank 1 *)
Definition old_net_grouping_p28 : proc := mkproc
  [(* 0 go@pdkg.go:333 *) NTau [1];
   (* 1 pdkg.go:324 *) NSel [ARecv 25 2 4] None None;
   (* 2 pdkg.go:325 *) NSel [ASend 26 1] None None;
   (* 3  *) NExit;
   (* 4 pdkg.go:329 *) NWgDone 0 3]
  1
  [3; 2; 3; 0; 1]
  [[]; []; []; [EDone 0]; []]
  [[]; []; []; [EDone 0]; []].
(* process 29: go@pdkg.go:336  rank 2 *)
Definition old_net_grouping_p29 : proc := mkproc
  [(* 0 go@pdkg.go:336 *) NTau [3];
   (* 1  *) NExit;
   (* 2 pdkg.go:339 *) NClose 26 1;
   (* 3 pdkg.go:338 *) NWgWait 0 2]
  2
  [3; 0; 1; 2]
  [[]; [EClosed 26; EWaited 0]; [EWaited 0]; []]
  [[]; [EClosed 26; EWaited 0]; [EWaited 0]; []].
(* process 30: go@dos_stages.go:446  rank 0 *)
Definition old_net_grouping_p30 : proc := mkproc
  [(* 0 go@dos_stages.go:446 *) NTau [6];
   (* 1  *) NExit;
   (* 2 dos_stages.go:447 *) NClose 27 1;
   (* 3 dos_stages.go:461 *) NSel [ASend 27 2] (Some 2) None;
   (* 4 dos_stages.go:460 *) NTau [3; 2];
   (* 5 dos_stages.go:447 *) NClose 27 1;
   (* 6 dos_stages.go:449 *) NSel [ARecv 24 4 4] (Some 5) None]
  0
  [3; 0; 1; 2; 3; 1; 2]
  [[]; [EClosed 27]; []; []; []; []; []]
  [[]; [EClosed 27]; []; []; []; []; []].
(* process 31: go@dos_stages.go:56  rank 3 *)
Definition old_net_grouping_p31 : proc := mkproc
  [(* 0 go@dos_stages.go:56 *) NTau [1];
   (* 1 dos_stages.go:45 *) NSel [ARecv 26 3 4] None None;
   (* 2  *) NExit;
   (* 3 dos_stages.go:46 *) NSel [ASend 28 1] (Some 2) None;
   (* 4 dos_stages.go:52 *) NWgDone 1 2]
  3
  [3; 2; 0; 1; 1]
  [[]; []; []; []; []]
  [[]; []; [EDone 1]; []; []].
(* process 32: go@dos_stages.go:56  rank 1 *)
Definition old_net_grouping_p32 : proc := mkproc
  [(* 0 go@dos_stages.go:56 *) NTau [1];
   (* 1 dos_stages.go:45 *) NSel [ARecv 27 3 4] None None;
   (* 2  *) NExit;
   (* 3 dos_stages.go:46 *) NSel [ASend 28 1] (Some 2) None;
   (* 4 dos_stages.go:52 *) NWgDone 1 2]
  1
  [3; 2; 0; 1; 1]
  [[]; []; []; []; []]
  [[]; []; [EDone 1]; []; []].
(* process 33: go@dos_stages.go:60  rank 4 *)
Definition old_net_grouping_p33 : proc := mkproc
  [(* 0 go@dos_stages.go:60 *) NTau [3];
   (* 1  *) NExit;
   (* 2 dos_stages.go:62 *) NClose 28 1;
   (* 3 dos_stages.go:61 *) NWgWait 1 2]
  4
  [3; 0; 1; 2]
  [[]; [EClosed 28; EWaited 1]; [EWaited 1]; []]
  [[]; [EClosed 28; EWaited 1]; [EWaited 1]; []].
Definition old_net_grouping : net := mknet
  [old_net_grouping_p0; old_net_grouping_p1; old_net_grouping_p2; old_net_grouping_p3; old_net_grouping_p4; old_net_grouping_p5; old_net_grouping_p6; old_net_grouping_p7; old_net_grouping_p8; old_net_grouping_p9; old_net_grouping_p10; old_net_grouping_p11; old_net_grouping_p12; old_net_grouping_p13; old_net_grouping_p14; old_net_grouping_p15; old_net_grouping_p16; old_net_grouping_p17; old_net_grouping_p18; old_net_grouping_p19; old_net_grouping_p20; old_net_grouping_p21; old_net_grouping_p22; old_net_grouping_p23; old_net_grouping_p24; old_net_grouping_p25; old_net_grouping_p26; old_net_grouping_p27; old_net_grouping_p28; old_net_grouping_p29; old_net_grouping_p30; old_net_grouping_p31; old_net_grouping_p32; old_net_grouping_p33]
  [0; 0; 0; 0; 0; 0; 1; 0; 0; 0; 0; 0; 0; 0; 1; 0; 0; 0; 0; 0; 1; 0; 0; 0; 0; 0; 9; 0; 2]
  [Some 1; None; Some 1; Some 2; Some 2; Some 3; Some 5; None; Some 7; Some 7; Some 8; Some 8; Some 9; Some 9; Some 11; None; Some 13; Some 13; Some 13; Some 14; Some 16; None; Some 18; Some 18; Some 19; Some 19; Some 29; Some 30; Some 33]
  [true; true; true; true; true; true; false; false; true; true; true; true; true; true; false; false; true; true; true; true; false; false; true; true; true; true; true; true; true]
  [[20; 21; 22; 23; 24; 25; 26; 27; 28]; [31; 32]]
  [None; None; None; None; None; None; None; None; None; None; None; None; None; None; None; None; None; None; None; None; None; None; None; None; None; None; Some 0; None; Some 1]
  9.

Definition old_net_grouping_translated : bool := true.

(* ---- network old_net_query_0 ---- *)
(* variant: dos_query_handler.go:117: clause 0 (dos_query_handler.go:118) *)
(* chan 0: dos_stages.go:100 cap=0 closer=1 owed=true *)
(* chan 1: dos_stages.go:103 cap=1 closer=1 owed=true *)
(* chan 2: dos_stages.go:103 cap=1 closer=1 owed=true *)
(* chan 3: dos_stages.go:158 cap=0 closer=2 owed=true *)
(* chan 4: dos_stages.go:289 cap=0 closer=3 owed=true *)
(* chan 5: dos_stages.go:290 cap=0 closer=3 owed=true *)
(* chan 6: dos_stages.go:325 cap=0 closer=4 owed=false *)
(* chan 7: env:reqSignc@dos_stages.go:370 cap=0 closer=-1 owed=false *)
(* chan 8: dos_stages.go:377 cap=0 closer=6 owed=true *)
(* chan 9: dos_stages.go:378 cap=0 closer=6 owed=true *)
(* chan 10: dos_stages.go:470 cap=0 closer=7 owed=true *)
(* chan 11: dos_stages.go:40 cap=5 closer=13 owed=true *)
(* process 0: root:handleQuery  rank 0 *)
Definition old_net_query_0_p0 : proc := mkproc
  [(* 0 root *) NTau [1];
   (* 1 dos_query_handler.go:136 *) NTau [8];
   (* 2  *) NExit;
   (* 3 dos_query_handler.go:72 *) NCancel 2;
   (* 4 dos_query_handler.go:76 *) NCancel 3;
   (* 5 dos_query_handler.go:139 *) NTau [4; 1];
   (* 6 dos_query_handler.go:72 *) NCancel 2;
   (* 7 dos_query_handler.go:76 *) NCancel 6;
   (* 8 dos_query_handler.go:137 *) NSel [ARecv 11 5 5] (Some 7) None]
  0
  [5; 4; 0; 1; 2; 5; 1; 2; 3]
  [[]; []; []; []; []; []; []; []; []]
  [[]; []; []; []; []; []; []; []; []].
(* process 1: go@dos_stages.go:106  rank 0 *)
Definition old_net_query_0_p1 : proc := mkproc
  [(* 0 go@dos_stages.go:106 *) NTau [6];
   (* 1  *) NExit;
   (* 2 dos_stages.go:107 *) NClose 0 1;
   (* 3 dos_stages.go:118 *) NClose 2 2;
   (* 4 dos_stages.go:118 *) NClose 1 3;
   (* 5 dos_stages.go:112 *) NSel [ASend 2 4] (Some 4) None;
   (* 6 dos_stages.go:112 *) NSel [ASend 1 5] (Some 5) None]
  0
  [6; 0; 1; 2; 3; 4; 5]
  [[]; [EClosed 0; EClosed 1; EClosed 2]; [EClosed 1; EClosed 2]; [EClosed 1]; []; []; []]
  [[]; [EClosed 0; EClosed 1; EClosed 2]; [EClosed 1; EClosed 2]; [EClosed 1]; []; []; []].
(* process 2: go@dos_stages.go:159  rank 0 *)
Definition old_net_query_0_p2 : proc := mkproc
  [(* 0 go@dos_stages.go:159 *) NTau [7];
   (* 1  *) NExit;
   (* 2 dos_stages.go:160 *) NClose 3 1;
   (* 3 dos_stages.go:160 *) NClose 3 1;
   (* 4 dos_stages.go:174 *) NSel [ASend 3 3] (Some 3) None;
   (* 5 dos_stages.go:164 *) NTau [2; 4];
   (* 6 dos_stages.go:160 *) NClose 3 1;
   (* 7 dos_stages.go:162 *) NSel [ARecv 1 5 5] (Some 6) None]
  0
  [3; 0; 1; 1; 2; 3; 1; 2]
  [[]; [EClosed 3]; []; []; []; []; []; []]
  [[]; [EClosed 3]; []; []; []; []; []; []].
(* process 3: go@dos_stages.go:291  rank 0 *)
Definition old_net_query_0_p3 : proc := mkproc
  [(* 0 go@dos_stages.go:291 *) NTau [14];
   (* 1  *) NExit;
   (* 2 dos_stages.go:292 *) NClose 4 1;
   (* 3 dos_stages.go:293 *) NClose 5 2;
   (* 4 dos_stages.go:292 *) NClose 4 1;
   (* 5 dos_stages.go:293 *) NClose 5 4;
   (* 6 dos_stages.go:305 *) NSel [ASend 5 5] (Some 5) None;
   (* 7 dos_stages.go:292 *) NClose 4 1;
   (* 8 dos_stages.go:293 *) NClose 5 7;
   (* 9 dos_stages.go:312 *) NSel [ASend 4 8] (Some 8) None;
   (* 10 dos_stages.go:303 *) NTau [6; 9];
   (* 11 dos_stages.go:297 *) NTau [3; 10];
   (* 12 dos_stages.go:292 *) NClose 4 1;
   (* 13 dos_stages.go:293 *) NClose 5 12;
   (* 14 dos_stages.go:295 *) NSel [ARecv 3 11 11] (Some 13) None]
  0
  [4; 0; 1; 2; 1; 2; 3; 1; 2; 3; 4; 5; 1; 2; 3]
  [[]; [EClosed 4; EClosed 5]; [EClosed 5]; []; [EClosed 5]; []; []; [EClosed 5]; []; []; []; []; [EClosed 5]; []; []]
  [[]; [EClosed 4; EClosed 5]; [EClosed 5]; []; [EClosed 5]; []; []; [EClosed 5]; []; []; []; []; [EClosed 5]; []; []].
(* process 4: go@dos_stages.go:326  rank 0 *)
Definition old_net_query_0_p4 : proc := mkproc
  [(* 0 go@dos_stages.go:326 *) NTau [16];
   (* 1  *) NExit;
   (* 2 dos_stages.go:346 *) NClose 6 1;
   (* 3 dos_stages.go:338 *) NSel [ARecv 4 2 2] (Some 2) None;
   (* 4 env: queryLoop relay *) NTau [7];
   (* 5 env: queryLoop watchdog close(reply) *) NClose 6 1;
   (* 6 env: watchdog or not *) NTau [1; 5];
   (* 7 env: queryLoop forwards a share *) NSel [ASend 6 4] (Some 6) None;
   (* 8 dos_stages.go:368 *) NSel [ASend 7 4] (Some 1) None;
   (* 9 dos_stages.go:358 *) NClose 6 8;
   (* 10 dos_stages.go:362 *) NClose 6 8;
   (* 11 dos_stages.go:360 *) NSel [ASend 6 8] (Some 10) None;
   (* 12 dos_stages.go:356 *) NSel [ARecv 4 11 11] (Some 9) None;
   (* 13 dos_stages.go:334 *) NTau [3; 12];
   (* 14 dos_stages.go:331 *) NTau [1; 13];
   (* 15 dos_stages.go:350 *) NClose 6 1;
   (* 16 dos_stages.go:327 *) NSel [ARecv 2 14 14] (Some 15) None]
  0
  [3; 0; 1; 2; 4; 1; 2; 3; 1; 2; 2; 3; 3; 4; 5; 1; 2]
  [[]; []; []; []; []; []; []; []; []; []; []; []; []; []; []; []; []]
  [[]; [EClosed 6]; []; []; [EClosed 6]; [EClosed 6]; [EClosed 6]; [EClosed 6]; [EClosed 6]; []; []; []; []; []; []; []; []].
(* process 5: env-accept:reqSignc@dos_stages.go:370  rank 0 *)
Definition old_net_query_0_p5 : proc := mkproc
  [(* 0  *) NSel [ARecv 7 1 1] (Some 1) None;
   (* 1  *) NExit]
  0
  [1; 0]
  [[]; []]
  [[]; []].
(* process 6: go@dos_stages.go:379  rank 0 *)
Definition old_net_query_0_p6 : proc := mkproc
  [(* 0 go@dos_stages.go:379 *) NTau [1];
   (* 1 dos_stages.go:384 *) NTau [20];
   (* 2  *) NExit;
   (* 3 dos_stages.go:381 *) NClose 8 2;
   (* 4 dos_stages.go:382 *) NClose 9 3;
   (* 5 dos_stages.go:400 (send without ctx.Done) *) NSel [ASend 9 1] None None;
   (* 6 dos_stages.go:409 (send without ctx.Done) *) NSel [ASend 9 1] None None;
   (* 7 dos_stages.go:415 (send without ctx.Done) *) NSel [ASend 9 1] None None;
   (* 8 dos_stages.go:381 *) NClose 8 2;
   (* 9 dos_stages.go:382 *) NClose 9 8;
   (* 10 dos_stages.go:429 *) NSel [ASend 8 9] (Some 9) None;
   (* 11 dos_stages.go:424 (send without ctx.Done) *) NSel [ASend 9 10] None None;
   (* 12 dos_stages.go:423 *) NTau [11; 10];
   (* 13 dos_stages.go:413 *) NTau [7; 12];
   (* 14 dos_stages.go:407 *) NTau [6; 13];
   (* 15 dos_stages.go:405 *) NTau [14; 1];
   (* 16 dos_stages.go:397 *) NTau [5; 15];
   (* 17 dos_stages.go:387 *) NTau [4; 16];
   (* 18 dos_stages.go:381 *) NClose 8 2;
   (* 19 dos_stages.go:382 *) NClose 9 18;
   (* 20 dos_stages.go:385 *) NSel [ARecv 6 17 17] (Some 19) None]
  0
  [5; 4; 0; 1; 2; 5; 5; 5; 1; 2; 3; 4; 5; 6; 7; 8; 9; 10; 1; 2; 3]
  [[]; []; [EClosed 8; EClosed 9]; [EClosed 9]; []; []; []; []; [EClosed 9]; []; []; []; []; []; []; []; []; []; [EClosed 9]; []; []]
  [[]; []; [EClosed 8; EClosed 9]; [EClosed 9]; []; []; []; []; [EClosed 9]; []; []; []; []; []; []; []; []; []; [EClosed 9]; []; []].
(* process 7: go@dos_stages.go:471  rank 0 *)
Definition old_net_query_0_p7 : proc := mkproc
  [(* 0 go@dos_stages.go:471 *) NTau [6];
   (* 1  *) NExit;
   (* 2 dos_stages.go:472 *) NClose 10 1;
   (* 3 dos_stages.go:489 *) NSel [ASend 10 2] (Some 2) None;
   (* 4 dos_stages.go:488 *) NTau [3; 2];
   (* 5 dos_stages.go:472 *) NClose 10 1;
   (* 6 dos_stages.go:474 *) NSel [ARecv 8 4 4] (Some 5) None]
  0
  [3; 0; 1; 2; 3; 1; 2]
  [[]; [EClosed 10]; []; []; []; []; []]
  [[]; [EClosed 10]; []; []; []; []; []].
(* process 8: go@dos_stages.go:56  rank 1 *)
Definition old_net_query_0_p8 : proc := mkproc
  [(* 0 go@dos_stages.go:56 *) NTau [1];
   (* 1 dos_stages.go:45 *) NSel [ARecv 0 3 4] None None;
   (* 2  *) NExit;
   (* 3 dos_stages.go:46 *) NSel [ASend 11 1] (Some 2) None;
   (* 4 dos_stages.go:52 *) NWgDone 0 2]
  1
  [3; 2; 0; 1; 1]
  [[]; []; []; []; []]
  [[]; []; [EDone 0]; []; []].
(* process 9: go@dos_stages.go:56  rank 1 *)
Definition old_net_query_0_p9 : proc := mkproc
  [(* 0 go@dos_stages.go:56 *) NTau [1];
   (* 1 dos_stages.go:45 *) NSel [ARecv 5 3 4] None None;
   (* 2  *) NExit;
   (* 3 dos_stages.go:46 *) NSel [ASend 11 1] (Some 2) None;
   (* 4 dos_stages.go:52 *) NWgDone 0 2]
  1
  [3; 2; 0; 1; 1]
  [[]; []; []; []; []]
  [[]; []; [EDone 0]; []; []].
(* process 10: go@dos_stages.go:56  rank 1 *)
Definition old_net_query_0_p10 : proc := mkproc
  [(* 0 go@dos_stages.go:56 *) NTau [1];
   (* 1 dos_stages.go:45 *) NSel [ARecv 5 3 4] None None;
   (* 2  *) NExit;
   (* 3 dos_stages.go:46 *) NSel [ASend 11 1] (Some 2) None;
   (* 4 dos_stages.go:52 *) NWgDone 0 2]
  1
  [3; 2; 0; 1; 1]
  [[]; []; []; []; []]
  [[]; []; [EDone 0]; []; []].
(* process 11: go@dos_stages.go:56  rank 1 *)
Definition old_net_query_0_p11 : proc := mkproc
  [(* 0 go@dos_stages.go:56 *) NTau [1];
   (* 1 dos_stages.go:45 *) NSel [ARecv 9 3 4] None None;
   (* 2  *) NExit;
   (* 3 dos_stages.go:46 *) NSel [ASend 11 1] (Some 2) None;
   (* 4 dos_stages.go:52 *) NWgDone 0 2]
  1
  [3; 2; 0; 1; 1]
  [[]; []; []; []; []]
  [[]; []; [EDone 0]; []; []].
(* process 12: go@dos_stages.go:56  rank 1 *)
Definition old_net_query_0_p12 : proc := mkproc
  [(* 0 go@dos_stages.go:56 *) NTau [1];
   (* 1 dos_stages.go:45 *) NSel [ARecv 10 3 4] None None;
   (* 2  *) NExit;
   (* 3 dos_stages.go:46 *) NSel [ASend 11 1] (Some 2) None;
   (* 4 dos_stages.go:52 *) NWgDone 0 2]
  1
  [3; 2; 0; 1; 1]
  [[]; []; []; []; []]
  [[]; []; [EDone 0]; []; []].
(* process 13: go@dos_stages.go:60  rank 2 *)
Definition old_net_query_0_p13 : proc := mkproc
  [(* 0 go@dos_stages.go:60 *) NTau [3];
   (* 1  *) NExit;
   (* 2 dos_stages.go:62 *) NClose 11 1;
   (* 3 dos_stages.go:61 *) NWgWait 0 2]
  2
  [3; 0; 1; 2]
  [[]; [EClosed 11; EWaited 0]; [EWaited 0]; []]
  [[]; [EClosed 11; EWaited 0]; [EWaited 0]; []].
Definition old_net_query_0 : net := mknet
  [old_net_query_0_p0; old_net_query_0_p1; old_net_query_0_p2; old_net_query_0_p3; old_net_query_0_p4; old_net_query_0_p5; old_net_query_0_p6; old_net_query_0_p7; old_net_query_0_p8; old_net_query_0_p9; old_net_query_0_p10; old_net_query_0_p11; old_net_query_0_p12; old_net_query_0_p13]
  [0; 1; 1; 0; 0; 0; 0; 0; 0; 0; 0; 5]
  [Some 1; Some 1; Some 1; Some 2; Some 3; Some 3; Some 4; None; Some 6; Some 6; Some 7; Some 13]
  [true; true; true; true; true; true; false; false; true; true; true; true]
  [[8; 9; 10; 11; 12]]
  [None; None; None; None; None; None; None; None; None; None; None; Some 0]
  11.

Definition old_net_query_0_translated : bool := true.

(* ---- network old_net_query_1 ---- *)
(* variant: dos_query_handler.go:117: clause 1 (dos_query_handler.go:120) *)
(* chan 0: dos_stages.go:100 cap=0 closer=1 owed=true *)
(* chan 1: dos_stages.go:103 cap=1 closer=1 owed=true *)
(* chan 2: dos_stages.go:103 cap=1 closer=1 owed=true *)
(* chan 3: dos_stages.go:127 cap=0 closer=2 owed=true *)
(* chan 4: dos_stages.go:289 cap=0 closer=3 owed=true *)
(* chan 5: dos_stages.go:290 cap=0 closer=3 owed=true *)
(* chan 6: dos_stages.go:325 cap=0 closer=4 owed=false *)
(* chan 7: env:reqSignc@dos_stages.go:370 cap=0 closer=-1 owed=false *)
(* chan 8: dos_stages.go:377 cap=0 closer=6 owed=true *)
(* chan 9: dos_stages.go:378 cap=0 closer=6 owed=true *)
(* chan 10: dos_stages.go:470 cap=0 closer=7 owed=true *)
(* chan 11: dos_stages.go:40 cap=5 closer=13 owed=true *)
(* process 0: root:handleQuery  rank 0 *)
Definition old_net_query_1_p0 : proc := mkproc
  [(* 0 root *) NTau [1];
   (* 1 dos_query_handler.go:136 *) NTau [8];
   (* 2  *) NExit;
   (* 3 dos_query_handler.go:72 *) NCancel 2;
   (* 4 dos_query_handler.go:76 *) NCancel 3;
   (* 5 dos_query_handler.go:139 *) NTau [4; 1];
   (* 6 dos_query_handler.go:72 *) NCancel 2;
   (* 7 dos_query_handler.go:76 *) NCancel 6;
   (* 8 dos_query_handler.go:137 *) NSel [ARecv 11 5 5] (Some 7) None]
  0
  [5; 4; 0; 1; 2; 5; 1; 2; 3]
  [[]; []; []; []; []; []; []; []; []]
  [[]; []; []; []; []; []; []; []; []].
(* process 1: go@dos_stages.go:106  rank 0 *)
Definition old_net_query_1_p1 : proc := mkproc
  [(* 0 go@dos_stages.go:106 *) NTau [6];
   (* 1  *) NExit;
   (* 2 dos_stages.go:107 *) NClose 0 1;
   (* 3 dos_stages.go:118 *) NClose 2 2;
   (* 4 dos_stages.go:118 *) NClose 1 3;
   (* 5 dos_stages.go:112 *) NSel [ASend 2 4] (Some 4) None;
   (* 6 dos_stages.go:112 *) NSel [ASend 1 5] (Some 5) None]
  0
  [6; 0; 1; 2; 3; 4; 5]
  [[]; [EClosed 0; EClosed 1; EClosed 2]; [EClosed 1; EClosed 2]; [EClosed 1]; []; []; []]
  [[]; [EClosed 0; EClosed 1; EClosed 2]; [EClosed 1; EClosed 2]; [EClosed 1]; []; []; []].
(* process 2: go@dos_stages.go:128  rank 0 *)
Definition old_net_query_1_p2 : proc := mkproc
  [(* 0 go@dos_stages.go:128 *) NTau [7];
   (* 1  *) NExit;
   (* 2 dos_stages.go:129 *) NClose 3 1;
   (* 3 dos_stages.go:129 *) NClose 3 1;
   (* 4 dos_stages.go:144 *) NSel [ASend 3 3] (Some 3) None;
   (* 5 dos_stages.go:133 *) NTau [2; 4];
   (* 6 dos_stages.go:129 *) NClose 3 1;
   (* 7 dos_stages.go:131 *) NSel [ARecv 1 5 5] (Some 6) None]
  0
  [3; 0; 1; 1; 2; 3; 1; 2]
  [[]; [EClosed 3]; []; []; []; []; []; []]
  [[]; [EClosed 3]; []; []; []; []; []; []].
(* process 3: go@dos_stages.go:291  rank 0 *)
Definition old_net_query_1_p3 : proc := mkproc
  [(* 0 go@dos_stages.go:291 *) NTau [14];
   (* 1  *) NExit;
   (* 2 dos_stages.go:292 *) NClose 4 1;
   (* 3 dos_stages.go:293 *) NClose 5 2;
   (* 4 dos_stages.go:292 *) NClose 4 1;
   (* 5 dos_stages.go:293 *) NClose 5 4;
   (* 6 dos_stages.go:305 *) NSel [ASend 5 5] (Some 5) None;
   (* 7 dos_stages.go:292 *) NClose 4 1;
   (* 8 dos_stages.go:293 *) NClose 5 7;
   (* 9 dos_stages.go:312 *) NSel [ASend 4 8] (Some 8) None;
   (* 10 dos_stages.go:303 *) NTau [6; 9];
   (* 11 dos_stages.go:297 *) NTau [3; 10];
   (* 12 dos_stages.go:292 *) NClose 4 1;
   (* 13 dos_stages.go:293 *) NClose 5 12;
   (* 14 dos_stages.go:295 *) NSel [ARecv 3 11 11] (Some 13) None]
  0
  [4; 0; 1; 2; 1; 2; 3; 1; 2; 3; 4; 5; 1; 2; 3]
  [[]; [EClosed 4; EClosed 5]; [EClosed 5]; []; [EClosed 5]; []; []; [EClosed 5]; []; []; []; []; [EClosed 5]; []; []]
  [[]; [EClosed 4; EClosed 5]; [EClosed 5]; []; [EClosed 5]; []; []; [EClosed 5]; []; []; []; []; [EClosed 5]; []; []].
(* process 4: go@dos_stages.go:326  rank 0 *)
Definition old_net_query_1_p4 : proc := mkproc
  [(* 0 go@dos_stages.go:326 *) NTau [16];
   (* 1  *) NExit;
   (* 2 dos_stages.go:346 *) NClose 6 1;
   (* 3 dos_stages.go:338 *) NSel [ARecv 4 2 2] (Some 2) None;
   (* 4 env: queryLoop relay *) NTau [7];
   (* 5 env: queryLoop watchdog close(reply) *) NClose 6 1;
   (* 6 env: watchdog or not *) NTau [1; 5];
   (* 7 env: queryLoop forwards a share *) NSel [ASend 6 4] (Some 6) None;
   (* 8 dos_stages.go:368 *) NSel [ASend 7 4] (Some 1) None;
   (* 9 dos_stages.go:358 *) NClose 6 8;
   (* 10 dos_stages.go:362 *) NClose 6 8;
   (* 11 dos_stages.go:360 *) NSel [ASend 6 8] (Some 10) None;
   (* 12 dos_stages.go:356 *) NSel [ARecv 4 11 11] (Some 9) None;
   (* 13 dos_stages.go:334 *) NTau [3; 12];
   (* 14 dos_stages.go:331 *) NTau [1; 13];
   (* 15 dos_stages.go:350 *) NClose 6 1;
   (* 16 dos_stages.go:327 *) NSel [ARecv 2 14 14] (Some 15) None]
  0
  [3; 0; 1; 2; 4; 1; 2; 3; 1; 2; 2; 3; 3; 4; 5; 1; 2]
  [[]; []; []; []; []; []; []; []; []; []; []; []; []; []; []; []; []]
  [[]; [EClosed 6]; []; []; [EClosed 6]; [EClosed 6]; [EClosed 6]; [EClosed 6]; [EClosed 6]; []; []; []; []; []; []; []; []].
(* process 5: env-accept:reqSignc@dos_stages.go:370  rank 0 *)
Definition old_net_query_1_p5 : proc := mkproc
  [(* 0  *) NSel [ARecv 7 1 1] (Some 1) None;
   (* 1  *) NExit]
  0
  [1; 0]
  [[]; []]
  [[]; []].
(* process 6: go@dos_stages.go:379  rank 0 *)
Definition old_net_query_1_p6 : proc := mkproc
  [(* 0 go@dos_stages.go:379 *) NTau [1];
   (* 1 dos_stages.go:384 *) NTau [20];
   (* 2  *) NExit;
   (* 3 dos_stages.go:381 *) NClose 8 2;
   (* 4 dos_stages.go:382 *) NClose 9 3;
   (* 5 dos_stages.go:400 (send without ctx.Done) *) NSel [ASend 9 1] None None;
   (* 6 dos_stages.go:409 (send without ctx.Done) *) NSel [ASend 9 1] None None;
   (* 7 dos_stages.go:415 (send without ctx.Done) *) NSel [ASend 9 1] None None;
   (* 8 dos_stages.go:381 *) NClose 8 2;
   (* 9 dos_stages.go:382 *) NClose 9 8;
   (* 10 dos_stages.go:429 *) NSel [ASend 8 9] (Some 9) None;
   (* 11 dos_stages.go:424 (send without ctx.Done) *) NSel [ASend 9 10] None None;
   (* 12 dos_stages.go:423 *) NTau [11; 10];
   (* 13 dos_stages.go:413 *) NTau [7; 12];
   (* 14 dos_stages.go:407 *) NTau [6; 13];
   (* 15 dos_stages.go:405 *) NTau [14; 1];
   (* 16 dos_stages.go:397 *) NTau [5; 15];
   (* 17 dos_stages.go:387 *) NTau [4; 16];
   (* 18 dos_stages.go:381 *) NClose 8 2;
   (* 19 dos_stages.go:382 *) NClose 9 18;
   (* 20 dos_stages.go:385 *) NSel [ARecv 6 17 17] (Some 19) None]
  0
  [5; 4; 0; 1; 2; 5; 5; 5; 1; 2; 3; 4; 5; 6; 7; 8; 9; 10; 1; 2; 3]
  [[]; []; [EClosed 8; EClosed 9]; [EClosed 9]; []; []; []; []; [EClosed 9]; []; []; []; []; []; []; []; []; []; [EClosed 9]; []; []]
  [[]; []; [EClosed 8; EClosed 9]; [EClosed 9]; []; []; []; []; [EClosed 9]; []; []; []; []; []; []; []; []; []; [EClosed 9]; []; []].
(* process 7: go@dos_stages.go:471  rank 0 *)
Definition old_net_query_1_p7 : proc := mkproc
  [(* 0 go@dos_stages.go:471 *) NTau [6];
   (* 1  *) NExit;
   (* 2 dos_stages.go:472 *) NClose 10 1;
   (* 3 dos_stages.go:489 *) NSel [ASend 10 2] (Some 2) None;
   (* 4 dos_stages.go:488 *) NTau [3; 2];
   (* 5 dos_stages.go:472 *) NClose 10 1;
   (* 6 dos_stages.go:474 *) NSel [ARecv 8 4 4] (Some 5) None]
  0
  [3; 0; 1; 2; 3; 1; 2]
  [[]; [EClosed 10]; []; []; []; []; []]
  [[]; [EClosed 10]; []; []; []; []; []].
(* process 8: go@dos_stages.go:56  rank 1 *)
Definition old_net_query_1_p8 : proc := mkproc
  [(* 0 go@dos_stages.go:56 *) NTau [1];
   (* 1 dos_stages.go:45 *) NSel [ARecv 0 3 4] None None;
   (* 2  *) NExit;
   (* 3 dos_stages.go:46 *) NSel [ASend 11 1] (Some 2) None;
   (* 4 dos_stages.go:52 *) NWgDone 0 2]
  1
  [3; 2; 0; 1; 1]
  [[]; []; []; []; []]
  [[]; []; [EDone 0]; []; []].
(* process 9: go@dos_stages.go:56  rank 1 *)
Definition old_net_query_1_p9 : proc := mkproc
  [(* 0 go@dos_stages.go:56 *) NTau [1];
   (* 1 dos_stages.go:45 *) NSel [ARecv 5 3 4] None None;
   (* 2  *) NExit;
   (* 3 dos_stages.go:46 *) NSel [ASend 11 1] (Some 2) None;
   (* 4 dos_stages.go:52 *) NWgDone 0 2]
  1
  [3; 2; 0; 1; 1]
  [[]; []; []; []; []]
  [[]; []; [EDone 0]; []; []].
(* process 10: go@dos_stages.go:56  rank 1 *)
Definition old_net_query_1_p10 : proc := mkproc
  [(* 0 go@dos_stages.go:56 *) NTau [1];
   (* 1 dos_stages.go:45 *) NSel [ARecv 5 3 4] None None;
   (* 2  *) NExit;
   (* 3 dos_stages.go:46 *) NSel [ASend 11 1] (Some 2) None;
   (* 4 dos_stages.go:52 *) NWgDone 0 2]
  1
  [3; 2; 0; 1; 1]
  [[]; []; []; []; []]
  [[]; []; [EDone 0]; []; []].
(* process 11: go@dos_stages.go:56  rank 1 *)
Definition old_net_query_1_p11 : proc := mkproc
  [(* 0 go@dos_stages.go:56 *) NTau [1];
   (* 1 dos_stages.go:45 *) NSel [ARecv 9 3 4] None None;
   (* 2  *) NExit;
   (* 3 dos_stages.go:46 *) NSel [ASend 11 1] (Some 2) None;
   (* 4 dos_stages.go:52 *) NWgDone 0 2]
  1
  [3; 2; 0; 1; 1]
  [[]; []; []; []; []]
  [[]; []; [EDone 0]; []; []].
(* process 12: go@dos_stages.go:56  rank 1 *)
Definition old_net_query_1_p12 : proc := mkproc
  [(* 0 go@dos_stages.go:56 *) NTau [1];
   (* 1 dos_stages.go:45 *) NSel [ARecv 10 3 4] None None;
   (* 2  *) NExit;
   (* 3 dos_stages.go:46 *) NSel [ASend 11 1] (Some 2) None;
   (* 4 dos_stages.go:52 *) NWgDone 0 2]
  1
  [3; 2; 0; 1; 1]
  [[]; []; []; []; []]
  [[]; []; [EDone 0]; []; []].
(* process 13: go@dos_stages.go:60  rank 2 *)
Definition old_net_query_1_p13 : proc := mkproc
  [(* 0 go@dos_stages.go:60 *) NTau [3];
   (* 1  *) NExit;
   (* 2 dos_stages.go:62 *) NClose 11 1;
   (* 3 dos_stages.go:61 *) NWgWait 0 2]
  2
  [3; 0; 1; 2]
  [[]; [EClosed 11; EWaited 0]; [EWaited 0]; []]
  [[]; [EClosed 11; EWaited 0]; [EWaited 0]; []].
Definition old_net_query_1 : net := mknet
  [old_net_query_1_p0; old_net_query_1_p1; old_net_query_1_p2; old_net_query_1_p3; old_net_query_1_p4; old_net_query_1_p5; old_net_query_1_p6; old_net_query_1_p7; old_net_query_1_p8; old_net_query_1_p9; old_net_query_1_p10; old_net_query_1_p11; old_net_query_1_p12; old_net_query_1_p13]
  [0; 1; 1; 0; 0; 0; 0; 0; 0; 0; 0; 5]
  [Some 1; Some 1; Some 1; Some 2; Some 3; Some 3; Some 4; None; Some 6; Some 6; Some 7; Some 13]
  [true; true; true; true; true; true; false; false; true; true; true; true]
  [[8; 9; 10; 11; 12]]
  [None; None; None; None; None; None; None; None; None; None; None; Some 0]
  11.

Definition old_net_query_1_translated : bool := true.

(* ---- network old_net_query_2 ---- *)
(* variant: dos_query_handler.go:117: clause 2 (dos_query_handler.go:122) *)
(* chan 0: dos_stages.go:100 cap=0 closer=1 owed=true *)
(* chan 1: dos_stages.go:103 cap=1 closer=1 owed=true *)
(* chan 2: dos_stages.go:103 cap=1 closer=1 owed=true *)
(* chan 3: dos_stages.go:246 cap=0 closer=2 owed=true *)
(* chan 4: dos_stages.go:247 cap=0 closer=2 owed=true *)
(* chan 5: dos_stages.go:289 cap=0 closer=3 owed=true *)
(* chan 6: dos_stages.go:290 cap=0 closer=3 owed=true *)
(* chan 7: dos_stages.go:325 cap=0 closer=4 owed=false *)
(* chan 8: env:reqSignc@dos_stages.go:370 cap=0 closer=-1 owed=false *)
(* chan 9: dos_stages.go:377 cap=0 closer=6 owed=true *)
(* chan 10: dos_stages.go:378 cap=0 closer=6 owed=true *)
(* chan 11: dos_stages.go:470 cap=0 closer=7 owed=true *)
(* chan 12: dos_stages.go:40 cap=6 closer=14 owed=true *)
(* process 0: root:handleQuery  rank 0 *)
Definition old_net_query_2_p0 : proc := mkproc
  [(* 0 root *) NTau [1];
   (* 1 dos_query_handler.go:136 *) NTau [8];
   (* 2  *) NExit;
   (* 3 dos_query_handler.go:72 *) NCancel 2;
   (* 4 dos_query_handler.go:76 *) NCancel 3;
   (* 5 dos_query_handler.go:139 *) NTau [4; 1];
   (* 6 dos_query_handler.go:72 *) NCancel 2;
   (* 7 dos_query_handler.go:76 *) NCancel 6;
   (* 8 dos_query_handler.go:137 *) NSel [ARecv 12 5 5] (Some 7) None]
  0
  [5; 4; 0; 1; 2; 5; 1; 2; 3]
  [[]; []; []; []; []; []; []; []; []]
  [[]; []; []; []; []; []; []; []; []].
(* process 1: go@dos_stages.go:106  rank 0 *)
Definition old_net_query_2_p1 : proc := mkproc
  [(* 0 go@dos_stages.go:106 *) NTau [6];
   (* 1  *) NExit;
   (* 2 dos_stages.go:107 *) NClose 0 1;
   (* 3 dos_stages.go:118 *) NClose 2 2;
   (* 4 dos_stages.go:118 *) NClose 1 3;
   (* 5 dos_stages.go:112 *) NSel [ASend 2 4] (Some 4) None;
   (* 6 dos_stages.go:112 *) NSel [ASend 1 5] (Some 5) None]
  0
  [6; 0; 1; 2; 3; 4; 5]
  [[]; [EClosed 0; EClosed 1; EClosed 2]; [EClosed 1; EClosed 2]; [EClosed 1]; []; []; []]
  [[]; [EClosed 0; EClosed 1; EClosed 2]; [EClosed 1; EClosed 2]; [EClosed 1]; []; []; []].
(* process 2: go@dos_stages.go:248  rank 0 *)
Definition old_net_query_2_p2 : proc := mkproc
  [(* 0 go@dos_stages.go:248 *) NTau [18];
   (* 1  *) NExit;
   (* 2 dos_stages.go:251 *) NClose 3 1;
   (* 3 dos_stages.go:252 *) NClose 4 2;
   (* 4 dos_stages.go:257 (send without ctx.Done) *) NSel [ASend 4 3] None None;
   (* 5 dos_stages.go:251 *) NClose 3 1;
   (* 6 dos_stages.go:252 *) NClose 4 5;
   (* 7 dos_stages.go:263 (send without ctx.Done) *) NSel [ASend 4 6] None None;
   (* 8 dos_stages.go:251 *) NClose 3 1;
   (* 9 dos_stages.go:252 *) NClose 4 8;
   (* 10 dos_stages.go:251 *) NClose 3 1;
   (* 11 dos_stages.go:252 *) NClose 4 10;
   (* 12 dos_stages.go:276 *) NSel [ASend 3 11] (Some 11) None;
   (* 13 dos_stages.go:269 *) NTau [9; 12];
   (* 14 dos_stages.go:251 *) NClose 3 1;
   (* 15 dos_stages.go:252 *) NClose 4 14;
   (* 16 dos_stages.go:267 *) NSel [ARecv 1 13 13] (Some 15) None;
   (* 17 dos_stages.go:261 *) NTau [7; 16];
   (* 18 dos_stages.go:255 *) NTau [4; 17]]
  0
  [6; 0; 1; 2; 3; 1; 2; 3; 1; 2; 1; 2; 3; 4; 1; 2; 3; 4; 5]
  [[]; [EClosed 3; EClosed 4]; [EClosed 4]; []; []; [EClosed 4]; []; []; [EClosed 4]; []; [EClosed 4]; []; []; []; [EClosed 4]; []; []; []; []]
  [[]; [EClosed 3; EClosed 4]; [EClosed 4]; []; []; [EClosed 4]; []; []; [EClosed 4]; []; [EClosed 4]; []; []; []; [EClosed 4]; []; []; []; []].
(* process 3: go@dos_stages.go:291  rank 0 *)
Definition old_net_query_2_p3 : proc := mkproc
  [(* 0 go@dos_stages.go:291 *) NTau [14];
   (* 1  *) NExit;
   (* 2 dos_stages.go:292 *) NClose 5 1;
   (* 3 dos_stages.go:293 *) NClose 6 2;
   (* 4 dos_stages.go:292 *) NClose 5 1;
   (* 5 dos_stages.go:293 *) NClose 6 4;
   (* 6 dos_stages.go:305 *) NSel [ASend 6 5] (Some 5) None;
   (* 7 dos_stages.go:292 *) NClose 5 1;
   (* 8 dos_stages.go:293 *) NClose 6 7;
   (* 9 dos_stages.go:312 *) NSel [ASend 5 8] (Some 8) None;
   (* 10 dos_stages.go:303 *) NTau [6; 9];
   (* 11 dos_stages.go:297 *) NTau [3; 10];
   (* 12 dos_stages.go:292 *) NClose 5 1;
   (* 13 dos_stages.go:293 *) NClose 6 12;
   (* 14 dos_stages.go:295 *) NSel [ARecv 3 11 11] (Some 13) None]
  0
  [4; 0; 1; 2; 1; 2; 3; 1; 2; 3; 4; 5; 1; 2; 3]
  [[]; [EClosed 5; EClosed 6]; [EClosed 6]; []; [EClosed 6]; []; []; [EClosed 6]; []; []; []; []; [EClosed 6]; []; []]
  [[]; [EClosed 5; EClosed 6]; [EClosed 6]; []; [EClosed 6]; []; []; [EClosed 6]; []; []; []; []; [EClosed 6]; []; []].
(* process 4: go@dos_stages.go:326  rank 0 *)
Definition old_net_query_2_p4 : proc := mkproc
  [(* 0 go@dos_stages.go:326 *) NTau [16];
   (* 1  *) NExit;
   (* 2 dos_stages.go:346 *) NClose 7 1;
   (* 3 dos_stages.go:338 *) NSel [ARecv 5 2 2] (Some 2) None;
   (* 4 env: queryLoop relay *) NTau [7];
   (* 5 env: queryLoop watchdog close(reply) *) NClose 7 1;
   (* 6 env: watchdog or not *) NTau [1; 5];
   (* 7 env: queryLoop forwards a share *) NSel [ASend 7 4] (Some 6) None;
   (* 8 dos_stages.go:368 *) NSel [ASend 8 4] (Some 1) None;
   (* 9 dos_stages.go:358 *) NClose 7 8;
   (* 10 dos_stages.go:362 *) NClose 7 8;
   (* 11 dos_stages.go:360 *) NSel [ASend 7 8] (Some 10) None;
   (* 12 dos_stages.go:356 *) NSel [ARecv 5 11 11] (Some 9) None;
   (* 13 dos_stages.go:334 *) NTau [3; 12];
   (* 14 dos_stages.go:331 *) NTau [1; 13];
   (* 15 dos_stages.go:350 *) NClose 7 1;
   (* 16 dos_stages.go:327 *) NSel [ARecv 2 14 14] (Some 15) None]
  0
  [3; 0; 1; 2; 4; 1; 2; 3; 1; 2; 2; 3; 3; 4; 5; 1; 2]
  [[]; []; []; []; []; []; []; []; []; []; []; []; []; []; []; []; []]
  [[]; [EClosed 7]; []; []; [EClosed 7]; [EClosed 7]; [EClosed 7]; [EClosed 7]; [EClosed 7]; []; []; []; []; []; []; []; []].
(* process 5: env-accept:reqSignc@dos_stages.go:370  rank 0 *)
Definition old_net_query_2_p5 : proc := mkproc
  [(* 0  *) NSel [ARecv 8 1 1] (Some 1) None;
   (* 1  *) NExit]
  0
  [1; 0]
  [[]; []]
  [[]; []].
(* process 6: go@dos_stages.go:379  rank 0 *)
Definition old_net_query_2_p6 : proc := mkproc
  [(* 0 go@dos_stages.go:379 *) NTau [1];
   (* 1 dos_stages.go:384 *) NTau [20];
   (* 2  *) NExit;
   (* 3 dos_stages.go:381 *) NClose 9 2;
   (* 4 dos_stages.go:382 *) NClose 10 3;
   (* 5 dos_stages.go:400 (send without ctx.Done) *) NSel [ASend 10 1] None None;
   (* 6 dos_stages.go:409 (send without ctx.Done) *) NSel [ASend 10 1] None None;
   (* 7 dos_stages.go:415 (send without ctx.Done) *) NSel [ASend 10 1] None None;
   (* 8 dos_stages.go:381 *) NClose 9 2;
   (* 9 dos_stages.go:382 *) NClose 10 8;
   (* 10 dos_stages.go:429 *) NSel [ASend 9 9] (Some 9) None;
   (* 11 dos_stages.go:424 (send without ctx.Done) *) NSel [ASend 10 10] None None;
   (* 12 dos_stages.go:423 *) NTau [11; 10];
   (* 13 dos_stages.go:413 *) NTau [7; 12];
   (* 14 dos_stages.go:407 *) NTau [6; 13];
   (* 15 dos_stages.go:405 *) NTau [14; 1];
   (* 16 dos_stages.go:397 *) NTau [5; 15];
   (* 17 dos_stages.go:387 *) NTau [4; 16];
   (* 18 dos_stages.go:381 *) NClose 9 2;
   (* 19 dos_stages.go:382 *) NClose 10 18;
   (* 20 dos_stages.go:385 *) NSel [ARecv 7 17 17] (Some 19) None]
  0
  [5; 4; 0; 1; 2; 5; 5; 5; 1; 2; 3; 4; 5; 6; 7; 8; 9; 10; 1; 2; 3]
  [[]; []; [EClosed 9; EClosed 10]; [EClosed 10]; []; []; []; []; [EClosed 10]; []; []; []; []; []; []; []; []; []; [EClosed 10]; []; []]
  [[]; []; [EClosed 9; EClosed 10]; [EClosed 10]; []; []; []; []; [EClosed 10]; []; []; []; []; []; []; []; []; []; [EClosed 10]; []; []].
(* process 7: go@dos_stages.go:471  rank 0 *)
Definition old_net_query_2_p7 : proc := mkproc
  [(* 0 go@dos_stages.go:471 *) NTau [6];
   (* 1  *) NExit;
   (* 2 dos_stages.go:472 *) NClose 11 1;
   (* 3 dos_stages.go:489 *) NSel [ASend 11 2] (Some 2) None;
   (* 4 dos_stages.go:488 *) NTau [3; 2];
   (* 5 dos_stages.go:472 *) NClose 11 1;
   (* 6 dos_stages.go:474 *) NSel [ARecv 9 4 4] (Some 5) None]
  0
  [3; 0; 1; 2; 3; 1; 2]
  [[]; [EClosed 11]; []; []; []; []; []]
  [[]; [EClosed 11]; []; []; []; []; []].
(* process 8: go@dos_stages.go:56  rank 1 *)
Definition old_net_query_2_p8 : proc := mkproc
  [(* 0 go@dos_stages.go:56 *) NTau [1];
   (* 1 dos_stages.go:45 *) NSel [ARecv 0 3 4] None None;
   (* 2  *) NExit;
   (* 3 dos_stages.go:46 *) NSel [ASend 12 1] (Some 2) None;
   (* 4 dos_stages.go:52 *) NWgDone 0 2]
  1
  [3; 2; 0; 1; 1]
  [[]; []; []; []; []]
  [[]; []; [EDone 0]; []; []].
(* process 9: go@dos_stages.go:56  rank 1 *)
Definition old_net_query_2_p9 : proc := mkproc
  [(* 0 go@dos_stages.go:56 *) NTau [1];
   (* 1 dos_stages.go:45 *) NSel [ARecv 4 3 4] None None;
   (* 2  *) NExit;
   (* 3 dos_stages.go:46 *) NSel [ASend 12 1] (Some 2) None;
   (* 4 dos_stages.go:52 *) NWgDone 0 2]
  1
  [3; 2; 0; 1; 1]
  [[]; []; []; []; []]
  [[]; []; [EDone 0]; []; []].
(* process 10: go@dos_stages.go:56  rank 1 *)
Definition old_net_query_2_p10 : proc := mkproc
  [(* 0 go@dos_stages.go:56 *) NTau [1];
   (* 1 dos_stages.go:45 *) NSel [ARecv 6 3 4] None None;
   (* 2  *) NExit;
   (* 3 dos_stages.go:46 *) NSel [ASend 12 1] (Some 2) None;
   (* 4 dos_stages.go:52 *) NWgDone 0 2]
  1
  [3; 2; 0; 1; 1]
  [[]; []; []; []; []]
  [[]; []; [EDone 0]; []; []].
(* process 11: go@dos_stages.go:56  rank 1 *)
Definition old_net_query_2_p11 : proc := mkproc
  [(* 0 go@dos_stages.go:56 *) NTau [1];
   (* 1 dos_stages.go:45 *) NSel [ARecv 6 3 4] None None;
   (* 2  *) NExit;
   (* 3 dos_stages.go:46 *) NSel [ASend 12 1] (Some 2) None;
   (* 4 dos_stages.go:52 *) NWgDone 0 2]
  1
  [3; 2; 0; 1; 1]
  [[]; []; []; []; []]
  [[]; []; [EDone 0]; []; []].
(* process 12: go@dos_stages.go:56  rank 1 *)
Definition old_net_query_2_p12 : proc := mkproc
  [(* 0 go@dos_stages.go:56 *) NTau [1];
   (* 1 dos_stages.go:45 *) NSel [ARecv 10 3 4] None None;
   (* 2  *) NExit;
   (* 3 dos_stages.go:46 *) NSel [ASend 12 1] (Some 2) None;
   (* 4 dos_stages.go:52 *) NWgDone 0 2]
  1
  [3; 2; 0; 1; 1]
  [[]; []; []; []; []]
  [[]; []; [EDone 0]; []; []].
(* process 13: go@dos_stages.go:56  rank 1 *)
Definition old_net_query_2_p13 : proc := mkproc
  [(* 0 go@dos_stages.go:56 *) NTau [1];
   (* 1 dos_stages.go:45 *) NSel [ARecv 11 3 4] None None;
   (* 2  *) NExit;
   (* 3 dos_stages.go:46 *) NSel [ASend 12 1] (Some 2) None;
   (* 4 dos_stages.go:52 *) NWgDone 0 2]
  1
  [3; 2; 0; 1; 1]
  [[]; []; []; []; []]
  [[]; []; [EDone 0]; []; []].
(* process 14: go@dos_stages.go:60  rank 2 *)
Definition old_net_query_2_p14 : proc := mkproc
  [(* 0 go@dos_stages.go:60 *) NTau [3];
   (* 1  *) NExit;
   (* 2 dos_stages.go:62 *) NClose 12 1;
   (* 3 dos_stages.go:61 *) NWgWait 0 2]
  2
  [3; 0; 1; 2]
  [[]; [EClosed 12; EWaited 0]; [EWaited 0]; []]
  [[]; [EClosed 12; EWaited 0]; [EWaited 0]; []].
Definition old_net_query_2 : net := mknet
  [old_net_query_2_p0; old_net_query_2_p1; old_net_query_2_p2; old_net_query_2_p3; old_net_query_2_p4; old_net_query_2_p5; old_net_query_2_p6; old_net_query_2_p7; old_net_query_2_p8; old_net_query_2_p9; old_net_query_2_p10; old_net_query_2_p11; old_net_query_2_p12; old_net_query_2_p13; old_net_query_2_p14]
  [0; 1; 1; 0; 0; 0; 0; 0; 0; 0; 0; 0; 6]
  [Some 1; Some 1; Some 1; Some 2; Some 2; Some 3; Some 3; Some 4; None; Some 6; Some 6; Some 7; Some 14]
  [true; true; true; true; true; true; true; false; false; true; true; true; true]
  [[8; 9; 10; 11; 12; 13]]
  [None; None; None; None; None; None; None; None; None; None; None; None; Some 0]
  11.

Definition old_net_query_2_translated : bool := true.

(* ---- network old_net_query_3 ---- *)
(* variant: dos_query_handler.go:117: no clause taken *)
(* chan 0: dos_stages.go:100 cap=0 closer=1 owed=true *)
(* chan 1: dos_stages.go:103 cap=1 closer=1 owed=true *)
(* chan 2: dos_stages.go:103 cap=1 closer=1 owed=true *)
(* chan 3: dos_stages.go:289 cap=0 closer=2 owed=true *)
(* chan 4: dos_stages.go:290 cap=0 closer=2 owed=true *)
(* chan 5: dos_stages.go:325 cap=0 closer=3 owed=false *)
(* chan 6: env:reqSignc@dos_stages.go:370 cap=0 closer=-1 owed=false *)
(* chan 7: dos_stages.go:377 cap=0 closer=5 owed=true *)
(* chan 8: dos_stages.go:378 cap=0 closer=5 owed=true *)
(* chan 9: dos_stages.go:470 cap=0 closer=6 owed=true *)
(* chan 10: dos_stages.go:40 cap=5 closer=12 owed=true *)
(* process 0: root:handleQuery  rank 0 *)
Definition old_net_query_3_p0 : proc := mkproc
  [(* 0 root *) NTau [1];
   (* 1 dos_query_handler.go:136 *) NTau [8];
   (* 2  *) NExit;
   (* 3 dos_query_handler.go:72 *) NCancel 2;
   (* 4 dos_query_handler.go:76 *) NCancel 3;
   (* 5 dos_query_handler.go:139 *) NTau [4; 1];
   (* 6 dos_query_handler.go:72 *) NCancel 2;
   (* 7 dos_query_handler.go:76 *) NCancel 6;
   (* 8 dos_query_handler.go:137 *) NSel [ARecv 10 5 5] (Some 7) None]
  0
  [5; 4; 0; 1; 2; 5; 1; 2; 3]
  [[]; []; []; []; []; []; []; []; []]
  [[]; []; []; []; []; []; []; []; []].
(* process 1: go@dos_stages.go:106  rank 0 *)
Definition old_net_query_3_p1 : proc := mkproc
  [(* 0 go@dos_stages.go:106 *) NTau [6];
   (* 1  *) NExit;
   (* 2 dos_stages.go:107 *) NClose 0 1;
   (* 3 dos_stages.go:118 *) NClose 2 2;
   (* 4 dos_stages.go:118 *) NClose 1 3;
   (* 5 dos_stages.go:112 *) NSel [ASend 2 4] (Some 4) None;
   (* 6 dos_stages.go:112 *) NSel [ASend 1 5] (Some 5) None]
  0
  [6; 0; 1; 2; 3; 4; 5]
  [[]; [EClosed 0; EClosed 1; EClosed 2]; [EClosed 1; EClosed 2]; [EClosed 1]; []; []; []]
  [[]; [EClosed 0; EClosed 1; EClosed 2]; [EClosed 1; EClosed 2]; [EClosed 1]; []; []; []].
(* process 2: go@dos_stages.go:291  rank 0 *)
Definition old_net_query_3_p2 : proc := mkproc
  [(* 0 go@dos_stages.go:291 *) NTau [4];
   (* 1  *) NExit;
   (* 2 dos_stages.go:292 *) NClose 3 1;
   (* 3 dos_stages.go:293 *) NClose 4 2;
   (* 4 dos_stages.go:295 *) NSel [] (Some 3) None]
  0
  [4; 0; 1; 2; 3]
  [[]; [EClosed 3; EClosed 4]; [EClosed 4]; []; []]
  [[]; [EClosed 3; EClosed 4]; [EClosed 4]; []; []].
(* process 3: go@dos_stages.go:326  rank 0 *)
Definition old_net_query_3_p3 : proc := mkproc
  [(* 0 go@dos_stages.go:326 *) NTau [16];
   (* 1  *) NExit;
   (* 2 dos_stages.go:346 *) NClose 5 1;
   (* 3 dos_stages.go:338 *) NSel [ARecv 3 2 2] (Some 2) None;
   (* 4 env: queryLoop relay *) NTau [7];
   (* 5 env: queryLoop watchdog close(reply) *) NClose 5 1;
   (* 6 env: watchdog or not *) NTau [1; 5];
   (* 7 env: queryLoop forwards a share *) NSel [ASend 5 4] (Some 6) None;
   (* 8 dos_stages.go:368 *) NSel [ASend 6 4] (Some 1) None;
   (* 9 dos_stages.go:358 *) NClose 5 8;
   (* 10 dos_stages.go:362 *) NClose 5 8;
   (* 11 dos_stages.go:360 *) NSel [ASend 5 8] (Some 10) None;
   (* 12 dos_stages.go:356 *) NSel [ARecv 3 11 11] (Some 9) None;
   (* 13 dos_stages.go:334 *) NTau [3; 12];
   (* 14 dos_stages.go:331 *) NTau [1; 13];
   (* 15 dos_stages.go:350 *) NClose 5 1;
   (* 16 dos_stages.go:327 *) NSel [ARecv 2 14 14] (Some 15) None]
  0
  [3; 0; 1; 2; 4; 1; 2; 3; 1; 2; 2; 3; 3; 4; 5; 1; 2]
  [[]; []; []; []; []; []; []; []; []; []; []; []; []; []; []; []; []]
  [[]; [EClosed 5]; []; []; [EClosed 5]; [EClosed 5]; [EClosed 5]; [EClosed 5]; [EClosed 5]; []; []; []; []; []; []; []; []].
(* process 4: env-accept:reqSignc@dos_stages.go:370  rank 0 *)
Definition old_net_query_3_p4 : proc := mkproc
  [(* 0  *) NSel [ARecv 6 1 1] (Some 1) None;
   (* 1  *) NExit]
  0
  [1; 0]
  [[]; []]
  [[]; []].
(* process 5: go@dos_stages.go:379  rank 0 *)
Definition old_net_query_3_p5 : proc := mkproc
  [(* 0 go@dos_stages.go:379 *) NTau [1];
   (* 1 dos_stages.go:384 *) NTau [20];
   (* 2  *) NExit;
   (* 3 dos_stages.go:381 *) NClose 7 2;
   (* 4 dos_stages.go:382 *) NClose 8 3;
   (* 5 dos_stages.go:400 (send without ctx.Done) *) NSel [ASend 8 1] None None;
   (* 6 dos_stages.go:409 (send without ctx.Done) *) NSel [ASend 8 1] None None;
   (* 7 dos_stages.go:415 (send without ctx.Done) *) NSel [ASend 8 1] None None;
   (* 8 dos_stages.go:381 *) NClose 7 2;
   (* 9 dos_stages.go:382 *) NClose 8 8;
   (* 10 dos_stages.go:429 *) NSel [ASend 7 9] (Some 9) None;
   (* 11 dos_stages.go:424 (send without ctx.Done) *) NSel [ASend 8 10] None None;
   (* 12 dos_stages.go:423 *) NTau [11; 10];
   (* 13 dos_stages.go:413 *) NTau [7; 12];
   (* 14 dos_stages.go:407 *) NTau [6; 13];
   (* 15 dos_stages.go:405 *) NTau [14; 1];
   (* 16 dos_stages.go:397 *) NTau [5; 15];
   (* 17 dos_stages.go:387 *) NTau [4; 16];
   (* 18 dos_stages.go:381 *) NClose 7 2;
   (* 19 dos_stages.go:382 *) NClose 8 18;
   (* 20 dos_stages.go:385 *) NSel [ARecv 5 17 17] (Some 19) None]
  0
  [5; 4; 0; 1; 2; 5; 5; 5; 1; 2; 3; 4; 5; 6; 7; 8; 9; 10; 1; 2; 3]
  [[]; []; [EClosed 7; EClosed 8]; [EClosed 8]; []; []; []; []; [EClosed 8]; []; []; []; []; []; []; []; []; []; [EClosed 8]; []; []]
  [[]; []; [EClosed 7; EClosed 8]; [EClosed 8]; []; []; []; []; [EClosed 8]; []; []; []; []; []; []; []; []; []; [EClosed 8]; []; []].
(* process 6: go@dos_stages.go:471  rank 0 *)
Definition old_net_query_3_p6 : proc := mkproc
  [(* 0 go@dos_stages.go:471 *) NTau [6];
   (* 1  *) NExit;
   (* 2 dos_stages.go:472 *) NClose 9 1;
   (* 3 dos_stages.go:489 *) NSel [ASend 9 2] (Some 2) None;
   (* 4 dos_stages.go:488 *) NTau [3; 2];
   (* 5 dos_stages.go:472 *) NClose 9 1;
   (* 6 dos_stages.go:474 *) NSel [ARecv 7 4 4] (Some 5) None]
  0
  [3; 0; 1; 2; 3; 1; 2]
  [[]; [EClosed 9]; []; []; []; []; []]
  [[]; [EClosed 9]; []; []; []; []; []].
(* process 7: go@dos_stages.go:56  rank 1 *)
Definition old_net_query_3_p7 : proc := mkproc
  [(* 0 go@dos_stages.go:56 *) NTau [1];
   (* 1 dos_stages.go:45 *) NSel [ARecv 0 3 4] None None;
   (* 2  *) NExit;
   (* 3 dos_stages.go:46 *) NSel [ASend 10 1] (Some 2) None;
   (* 4 dos_stages.go:52 *) NWgDone 0 2]
  1
  [3; 2; 0; 1; 1]
  [[]; []; []; []; []]
  [[]; []; [EDone 0]; []; []].
(* process 8: go@dos_stages.go:56  rank 1 *)
Definition old_net_query_3_p8 : proc := mkproc
  [(* 0 go@dos_stages.go:56 *) NTau [1];
   (* 1 dos_stages.go:45 *) NSel [ARecv 4 3 4] None None;
   (* 2  *) NExit;
   (* 3 dos_stages.go:46 *) NSel [ASend 10 1] (Some 2) None;
   (* 4 dos_stages.go:52 *) NWgDone 0 2]
  1
  [3; 2; 0; 1; 1]
  [[]; []; []; []; []]
  [[]; []; [EDone 0]; []; []].
(* process 9: go@dos_stages.go:56  rank 1 *)
Definition old_net_query_3_p9 : proc := mkproc
  [(* 0 go@dos_stages.go:56 *) NTau [1];
   (* 1 dos_stages.go:45 *) NSel [ARecv 4 3 4] None None;
   (* 2  *) NExit;
   (* 3 dos_stages.go:46 *) NSel [ASend 10 1] (Some 2) None;
   (* 4 dos_stages.go:52 *) NWgDone 0 2]
  1
  [3; 2; 0; 1; 1]
  [[]; []; []; []; []]
  [[]; []; [EDone 0]; []; []].
(* process 10: go@dos_stages.go:56  rank 1 *)
Definition old_net_query_3_p10 : proc := mkproc
  [(* 0 go@dos_stages.go:56 *) NTau [1];
   (* 1 dos_stages.go:45 *) NSel [ARecv 8 3 4] None None;
   (* 2  *) NExit;
   (* 3 dos_stages.go:46 *) NSel [ASend 10 1] (Some 2) None;
   (* 4 dos_stages.go:52 *) NWgDone 0 2]
  1
  [3; 2; 0; 1; 1]
  [[]; []; []; []; []]
  [[]; []; [EDone 0]; []; []].
(* process 11: go@dos_stages.go:56  rank 1 *)
Definition old_net_query_3_p11 : proc := mkproc
  [(* 0 go@dos_stages.go:56 *) NTau [1];
   (* 1 dos_stages.go:45 *) NSel [ARecv 9 3 4] None None;
   (* 2  *) NExit;
   (* 3 dos_stages.go:46 *) NSel [ASend 10 1] (Some 2) None;
   (* 4 dos_stages.go:52 *) NWgDone 0 2]
  1
  [3; 2; 0; 1; 1]
  [[]; []; []; []; []]
  [[]; []; [EDone 0]; []; []].
(* process 12: go@dos_stages.go:60  rank 2 *)
Definition old_net_query_3_p12 : proc := mkproc
  [(* 0 go@dos_stages.go:60 *) NTau [3];
   (* 1  *) NExit;
   (* 2 dos_stages.go:62 *) NClose 10 1;
   (* 3 dos_stages.go:61 *) NWgWait 0 2]
  2
  [3; 0; 1; 2]
  [[]; [EClosed 10; EWaited 0]; [EWaited 0]; []]
  [[]; [EClosed 10; EWaited 0]; [EWaited 0]; []].
Definition old_net_query_3 : net := mknet
  [old_net_query_3_p0; old_net_query_3_p1; old_net_query_3_p2; old_net_query_3_p3; old_net_query_3_p4; old_net_query_3_p5; old_net_query_3_p6; old_net_query_3_p7; old_net_query_3_p8; old_net_query_3_p9; old_net_query_3_p10; old_net_query_3_p11; old_net_query_3_p12]
  [0; 1; 1; 0; 0; 0; 0; 0; 0; 0; 5]
  [Some 1; Some 1; Some 1; Some 2; Some 2; Some 3; None; Some 5; Some 5; Some 6; Some 12]
  [true; true; true; true; true; false; false; true; true; true; true]
  [[7; 8; 9; 10; 11]]
  [None; None; None; None; None; None; None; None; None; None; Some 0]
  11.

Definition old_net_query_3_translated : bool := true.

Definition old_all_nets : list (net * bool) := [(old_net_grouping, old_net_grouping_translated); (old_net_query_0, old_net_query_0_translated); (old_net_query_1, old_net_query_1_translated); (old_net_query_2, old_net_query_2_translated); (old_net_query_3, old_net_query_3_translated)].
