(* Dkg.v -- model of /repo/share/dkg/pedersen/dkg.go (DistKeyGenerator) on top of Vss.v. *)
From Coq Require Import ZArith List Bool.
From DosVerif Require Import Base.Val Base.Field Models.Share Models.Tbls Models.Vss.
Import ListNotations.
Local Open Scope Z_scope.

Section Dkg.
Context {F : Type}.
Variable O : Fops F.
Variable fixed : bool.
Notation M := (self_gops O).

Record gen : Type := mkgen {
  g_index : Z; g_key : Z; g_members : list Z; g_t : Z;
  g_poly : list F;                          (* own secret polynomial *)
  g_vers : list (Z * verifier (F:=F));      (* d.verifiers: dealer index -> verifier *)
  g_own : list (Z * status)                 (* responses recorded by the own Dealer's aggregator *)
}.

Definition gn (g : gen) : Z := Z.of_nat (length (g_members g)).

Fixpoint get_ver (i : Z) (l : list (Z * verifier (F:=F))) : option (verifier (F:=F)) :=
  match l with
  | [] => None
  | (k, v) :: l' => if k =? i then Some v else get_ver i l'
  end.

Fixpoint set_ver (i : Z) (v : verifier (F:=F)) (l : list (Z * verifier (F:=F))) : list (Z * verifier (F:=F)) :=
  match l with
  | [] => [(i, v)]
  | (k, w) :: l' => if k =? i then (k, v) :: l' else (k, w) :: set_ver i v l'
  end.

Definition own_sid (g : gen) : sid (F:=F) :=
  Sid (g_key g) (g_members g) (commit M (f1 O) (g_poly g)) (g_t g).

Definition own_plain (g : gen) (i : Z) : plain (F:=F) :=
  mkplain (own_sid g) (Some (i, eval O (g_poly g) i)) (g_t g) (commit M (f1 O) (g_poly g)).

(* an honest deal of g for member i, as the recipient's decryption sees it *)
Definition own_edeal (g : gen) (i : Z) (eph : Z) : edeal (F:=F) :=
  match nth_key (g_members g) i with
  | Some rk => mkedeal (g_key g) eph eph (Some eph) 12 0 eph rk (g_key g) (g_members g) 0 true (Some (own_plain g i))
  | None => mkedeal (-1) 0 0 None 12 0 0 0 0 [] 0 false None
  end.

(* DistKeyGenerator.ProcessDeal: the verifier slot is taken before the deal is looked at *)
Definition process_deal (g : gen) (dealer : Z) (eo : option (edeal (F:=F))) : gen * res (response (F:=F)) :=
  match nth_key (g_members g) dealer with
  | None => (g, Err)
  | Some dk =>
    match get_ver dealer (g_vers g) with
    | Some _ => (g, Err)
    | None =>
      let v0 := mkver (g_key g) dk (g_index g) (g_members g) None in
      let g0 := mkgen (g_index g) (g_key g) (g_members g) (g_t g) (g_poly g) (set_ver dealer v0 (g_vers g)) (g_own g) in
      match process_encrypted_deal O fixed v0 eo with
      | Ok (v1, r) =>
        let v2 := unsafe_set v1 dealer in
        (mkgen (g_index g) (g_key g) (g_members g) (g_t g) (g_poly g) (set_ver dealer v2 (g_vers g)) (g_own g), Ok r)
      | Err => (g0, Err)
      | Panic => (g0, Panic)
      end
    end
  end.

(* a freshly created generator after Deals(): the own deal has been processed *)
Definition gen_init (index key : Z) (members : list Z) (t : Z) (poly : list F) : gen :=
  let g := mkgen index key members t poly [] [] in
  fst (process_deal g index (Some (own_edeal g index 0))).

(* the own Dealer's aggregator: verifyResponse against the own session id *)
Definition own_add (g : gen) (r : response (F:=F)) : option (list (Z * status)) :=
  if negb (sid_eqb O (r_sid r) (own_sid g)) then None
  else match nth_key (g_members g) (r_index r) with
       | None => None
       | Some k =>
         if negb (r_sig_key r =? k) then None
         else if (r_index r <? 0) || (gn g <=? r_index r) then None
         else match lookup_resp (r_index r) (g_own g) with
              | Some _ => None
              | None => Some (g_own g ++ [(r_index r, r_status r)])
              end
       end.

(* a complaint about an own (honest) deal is answered by a justification that verifies: the
   complaint recorded in the own verifier turns into an approval *)
Definition justify (v : verifier (F:=F)) (i : Z) : verifier (F:=F) :=
  match v_agg v with
  | None => v
  | Some a =>
    mkver (v_key v) (v_dealer v) (v_index v) (v_members v)
          (Some (mkagg (a_sid a) (a_commits a) (a_t a) (a_deal a)
                       (map (fun kv => if fst kv =? i then (fst kv, Approval) else kv) (a_resps a)) (a_bad a)))
  end.

(* DistKeyGenerator.ProcessResponse; dealer = resp.Index (whose deal the response is about) *)
Definition process_response_dkg (g : gen) (dealer : Z) (ro : option (response (F:=F))) : res gen :=
  match get_ver dealer (g_vers g) with
  | None => Err
  | Some v =>
    match process_response O fixed v ro with
    | Ok v1 =>
      let g1 := mkgen (g_index g) (g_key g) (g_members g) (g_t g) (g_poly g) (set_ver dealer v1 (g_vers g)) (g_own g) in
      if negb (dealer =? g_index g) then Ok g1
      else match ro with
           | None => Err
           | Some r =>
             match own_add g1 r with
             | None => Err
             | Some own' =>
               let v2 := match r_status r with Approval => v1 | Complaint => justify v1 (r_index r) end in
               Ok (mkgen (g_index g) (g_key g) (g_members g) (g_t g) (g_poly g) (set_ver dealer v2 (g_vers g)) own')
             end
           end
    | Err => Err
    | Panic => Panic
    end
  end.

(* QUAL / Certified *)
Definition qual (g : gen) : list Z :=
  map fst (filter (fun kv => deal_certified (snd kv)) (g_vers g)).

Definition certified (g : gen) : bool := gn g <=? Z.of_nat (length (qual g)).

(* DistKeyShare: (commitments of the group polynomial, own share) *)
Definition dist_key_share (g : gen) : res (list F * F) :=
  if negb (certified g) then Err
  else
    let deals := flat_map (fun kv => if deal_certified (snd kv)
                                     then match v_agg (snd kv) with
                                          | Some a => match a_deal a with Some p => [p] | None => [] end
                                          | None => [] end
                                     else []) (g_vers g) in
    let sh := fold_left (fun acc p => match p_sec p with Some (_, x) => fadd O acc x | None => acc end) deals (f0 O) in
    match deals with
    | [] => Panic
    | p0 :: rest =>
      match fold_left (fun acc p => match acc with
                                    | Some c => pub_add M c (p_commits p)
                                    | None => None end) rest (Some (p_commits p0)) with
      | Some c => Ok (c, sh)
      | None => Err
      end
    end.

(* the certified deals DistKeyShare sums over *)
Definition certified_deals (g : gen) : list (plain (F:=F)) :=
  flat_map (fun kv => if deal_certified (snd kv)
                      then match v_agg (snd kv) with
                           | Some a => match a_deal a with Some p => [p] | None => [] end
                           | None => [] end
                      else []) (g_vers g).

(* ---- the session as pdkg_pipes.go drives it: getAndProcessDeals / getAndProcessResponses / genGroup *)

(* getAndProcessDeals: a deal that fails is skipped, an own complaint aborts the session *)
Fixpoint get_and_process_deals (g : gen) (deals : list (Z * option (edeal (F:=F)))) (acc : list (Z * response (F:=F)))
  : res (gen * list (Z * response (F:=F))) :=
  match deals with
  | [] => Ok (g, acc)
  | (dealer, eo) :: rest =>
    match process_deal g dealer eo with
    | (g', Ok r) => match r_status r with
                    | Approval => get_and_process_deals g' rest (acc ++ [(dealer, r)])
                    | Complaint => Err
                    end
    | (g', Err) => get_and_process_deals g' rest acc
    | (g', Panic) => Panic
    end
  end.

(* getAndProcessResponses: any error aborts *)
Fixpoint get_and_process_responses (g : gen) (resps : list (Z * option (response (F:=F)))) : res gen :=
  match resps with
  | [] => Ok g
  | (dealer, ro) :: rest =>
    match process_response_dkg g dealer ro with
    | Ok g' => get_and_process_responses g' rest
    | Err => Err
    | Panic => Panic
    end
  end.

(* the whole session of one member: Err = aborted, Ok = finished with (commitments, share) *)
Definition session (g : gen) (deals : list (Z * option (edeal (F:=F)))) (resps : list (Z * option (response (F:=F))))
  : res (list F * F) :=
  res_bind (get_and_process_deals g deals []) (fun gd =>
  res_bind (get_and_process_responses (fst gd) resps) (fun g2 => dist_key_share g2)).

End Dkg.
