(* EntryTbls.v -- wire-level entry points of the Tbls model over Z/qZ. *)
From Coq Require Import ZArith List Bool.
From DosVerif Require Import Base.Val Base.Field Models.Share Models.Tbls Models.EntryShare.
Import ListNotations.
Local Open Scope Z_scope.

(* decode table: ( ( b<bytes> z<dlog> | N ) ... ) *)
Definition table_dec (q : Z) (tbl : list val) (b : list N) : option (zq q) :=
  match find (fun e => match e with VL [VB k; _] => bytes_eqb k b | _ => false end) tbl with
  | Some (VL [_; VZ d]) => Some (zq_of q d)
  | _ => None
  end.

Definition vbytes (l : list val) : list (list N) :=
  map (fun v => match v with VB b => b | _ => [] end) l.

Definition entry_tbls (op : Z) (args : list val) : val :=
  match op, args with
  | 1, [VZ q; VZ d; VL pub; VZ hm; VL tbl; VL sigs; VZ t; VZ n] =>
      res_val (fun x => VG 1 (zv x))
        (recover (zq_ops q) (is1 d) (table_dec q tbl) (zs q pub) (zq_of q hm) (vbytes sigs) t n)
  | 2, [VZ q; VZ d; VL pub; VZ hm; VL tbl; VL sigs; VZ t; VZ n] =>
      res_val (fun x => VG 1 (zv x))
        (recover_old (zq_ops q) (is1 d) (table_dec q tbl) (zs q pub) (zq_of q hm) (vbytes sigs) t n)
  | 3, [VZ q; VL pub; VZ hm; VL tbl; VB sig] =>
      res_val (fun _ => VZ 1) (tbls_verify (zq_ops q) (table_dec q tbl) (zs q pub) (zq_of q hm) sig)
  | 4, [VZ q; VZ i; VZ xi; VZ hm] =>
      let '(pre, s) := sign_parts (zq_ops q) i (zq_of q xi) (zq_of q hm) in
      VL [VB pre; VG 1 (zv s)]
  | 5, [VZ q; VZ x; VZ hm; VL tbl; VB sig] =>
      vbool (bls_verify (zq_ops q) (table_dec q tbl) (zq_of q x) (zq_of q hm) sig)
  | _, _ => VErr
  end.
