(* ConnTable.v -- the two connection tables of a p2p server (/repo/p2p/server.go): callHandler's
   table of DIALLED connections (peer id -> client) and receiveHandler's table of ACCEPTED ones.
   A request to a peer uses the dialled connection registered for that id, or dials; a connection
   that ends (its run() returns) announces the removal of its peer id to the table it belongs to -
   the dialled one to removeCallingC, the accepted one to removeIncomingC; the announcement is
   processed by the handler loop some time later.  Replies go out on the accepted connection
   registered for the requester. *)
From Coq Require Import ZArith List Bool Lia.
From DosVerif Require Import Base.Val.
Import ListNotations.

Inductive cev : Type :=
| CReq (id : nat) (dial_ok : bool)     (* a request to id reaches callHandler; dial_ok: the peer can be dialled now *)
| CAccept (id : nat)                   (* a connection from id completed the handshake (addIncomingC) *)
| CEnd (c : nat)                       (* connection c ends: its run() returns *)
| CRemoveCalling                       (* callHandler takes one announcement from removeCallingC *)
| CRemoveIncoming                      (* receiveHandler takes one from removeIncomingC *)
| CReply (id : nat).                   (* a reply to id reaches receiveHandler *)

Inductive cout : Type :=
| Routed (c : nat)                     (* handed to connection c *)
| Dialled (c : nat)                    (* a new connection c was dialled, registered, and used *)
| DialFailed
| Accepted (c : nat)
| Refused                              (* a second connection from the same id: closed *)
| NoClient                             (* reply: no accepted connection from that id *)
| Quiet.

Record conn : Type := mkconn { c_id : nat; c_inbound : bool; c_live : bool }.

Record cst : Type := mkc {
  conns : list conn;                   (* every connection ever made; its number is its position *)
  calling : list (nat * nat);          (* id -> connection *)
  incoming : list (nat * nat);
  pend_calling : list nat;             (* announced removals (peer ids), oldest first *)
  pend_incoming : list nat
}.

Definition c0 : cst := mkc [] [] [] [] [].

Fixpoint lookupn (k : nat) (l : list (nat * nat)) : option nat :=
  match l with [] => None | (k', v) :: t => if Nat.eqb k k' then Some v else lookupn k t end.
Fixpoint removen (k : nat) (l : list (nat * nat)) : list (nat * nat) :=
  match l with [] => [] | (k', v) :: t => if Nat.eqb k k' then removen k t else (k', v) :: removen k t end.

Fixpoint set_dead (c : nat) (l : list conn) : list conn :=
  match l, c with
  | [], _ => []
  | x :: t, O => mkconn (c_id x) (c_inbound x) false :: t
  | x :: t, S c' => x :: set_dead c' t
  end.

Definition cstep (s : cst) (e : cev) : cst * cout :=
  match e with
  | CReq id ok =>
      match lookupn id (calling s) with
      | Some c => (s, Routed c)
      | None =>
          if ok then
            let c := length (conns s) in
            (mkc (conns s ++ [mkconn id false true]) ((id, c) :: calling s) (incoming s) (pend_calling s) (pend_incoming s),
             Dialled c)
          else (s, DialFailed)
      end
  | CAccept id =>
      match lookupn id (incoming s) with
      | Some _ => (s, Refused)
      | None =>
          let c := length (conns s) in
          (mkc (conns s ++ [mkconn id true true]) (calling s) ((id, c) :: incoming s) (pend_calling s) (pend_incoming s),
           Accepted c)
      end
  | CEnd c =>
      match nth_error (conns s) c with
      | Some x =>
          if c_live x then
            (mkc (set_dead c (conns s)) (calling s) (incoming s)
                 (if c_inbound x then pend_calling s else pend_calling s ++ [c_id x])
                 (if c_inbound x then pend_incoming s ++ [c_id x] else pend_incoming s), Quiet)
          else (s, Quiet)
      | None => (s, Quiet)
      end
  | CRemoveCalling =>
      match pend_calling s with
      | [] => (s, Quiet)
      | id :: rest => (mkc (conns s) (removen id (calling s)) (incoming s) rest (pend_incoming s), Quiet)
      end
  | CRemoveIncoming =>
      match pend_incoming s with
      | [] => (s, Quiet)
      | id :: rest => (mkc (conns s) (calling s) (removen id (incoming s)) (pend_calling s) rest, Quiet)
      end
  | CReply id =>
      match lookupn id (incoming s) with
      | Some c => (s, Routed c)
      | None => (s, NoClient)
      end
  end.

Fixpoint crun (s : cst) (es : list cev) : cst * list cout :=
  match es with
  | [] => (s, [])
  | e :: es' => let '(s1, o) := cstep s e in let '(s2, os) := crun s1 es' in (s2, o :: os)
  end.

(* the harness lets the handlers settle after every event: all announced removals are processed *)
Fixpoint settle (fuel : nat) (s : cst) : cst :=
  match fuel with
  | O => s
  | S f =>
      match pend_calling s, pend_incoming s with
      | [], [] => s
      | _ :: _, _ => settle f (fst (cstep s CRemoveCalling))
      | [], _ :: _ => settle f (fst (cstep s CRemoveIncoming))
      end
  end.

Definition settled (s : cst) : cst := settle (length (pend_calling s) + length (pend_incoming s)) s.

(* a peer goes away: every live connection with it ends *)
Definition ends_of (s : cst) (id : nat) : list cev :=
  map CEnd (filter (fun c => match nth_error (conns s) c with Some x => c_live x && Nat.eqb (c_id x) id | None => false end)
                   (seq 0 (length (conns s)))).

Definition is_live (s : cst) (c : nat) : bool :=
  match nth_error (conns s) c with Some x => c_live x | None => false end.

(* wire: events (z0 id ok) request | (z1 id) the peer requests this node | (z2 id) peer goes away | (z3 id) reply.
   output per event: the class of what happened, with liveness of the connection used, and the
   table sizes after settling *)
Definition enc_out (s : cst) (o : cout) : val :=
  match o with
  | Routed c => VL [VZ 0; VZ (if is_live s c then 1 else 0)]
  | Dialled _ => VL [VZ 1]
  | DialFailed => VL [VZ 2]
  | Accepted _ => VL [VZ 3]
  | Refused => VL [VZ 4]
  | NoClient => VL [VZ 5]
  | Quiet => VL [VZ 6]
  end.

Fixpoint run_wire (s : cst) (evs : list val) : list val :=
  match evs with
  | [] => []
  | v :: rest =>
      let '(s1, o) :=
        match v with
        | VL [VZ 0; VZ id; VZ ok] => let '(s', o) := cstep s (CReq (Z.to_nat id) (negb (Z.eqb ok 0))) in (s', enc_out s' o)
        | VL [VZ 1; VZ id] =>
            (* the peer makes a request to this node: over the connection it already has, or a new one *)
            match lookupn (Z.to_nat id) (incoming s) with
            | Some _ => (s, VL [VZ 6])
            | None => let '(s', o) := cstep s (CAccept (Z.to_nat id)) in (s', enc_out s' o)
            end
        | VL [VZ 2; VZ id] => (fst (crun s (ends_of s (Z.to_nat id))), VL [VZ 6])
        | VL [VZ 3; VZ id] => let '(s', o) := cstep s (CReply (Z.to_nat id)) in (s', enc_out s' o)
        | VL [VZ 4; VZ _] => (s, VL [VZ 6])      (* the peer comes back at a new address: nothing happens here *)
        | _ => (s, VErr)
        end in
      let s2 := settled s1 in
      VL [o; VZ (Z.of_nat (length (incoming s2))); VZ (Z.of_nat (length (calling s2)))] :: run_wire s2 rest
  end.

Definition entry_conntable (op : Z) (args : list val) : val :=
  match op, args with
  | 1%Z, [VL evs] => VL (run_wire c0 evs)
  | _, _ => VErr
  end.
