(* Stages.v -- model of the content-building stages of /repo/dosnode/dos_stages.go and of the
   result extraction in recoverSign: pure functions on byte strings.
   Numbers reach the stages as big.Int.Bytes(): the minimal big-endian encoding [be_min]. *)
From Coq Require Import ZArith NArith List Bool.
From DosVerif Require Import Base.Val.
Import ListNotations.

Definition addr_len : nat := 20.
Definition rand_size : nat := 32.

(* fixed-width big-endian *)
Fixpoint be_enc (k : nat) (n : N) : list N :=
  match k with
  | O => []
  | S k' => be_enc k' (n / 256)%N ++ [(n mod 256)%N]
  end.

Fixpoint drop_zeros (l : list N) : list N :=
  match l with
  | 0%N :: l' => drop_zeros l'
  | _ => l
  end.

(* big.Int.Bytes(): no leading zero byte, empty for 0 *)
Definition be_min (n : N) : list N := drop_zeros (be_enc (N.to_nat (N.size n)) n).

(* padOrTrim *)
Definition pad_or_trim (bb : list N) (size : nat) : list N :=
  let l := length bb in
  if Nat.eqb l size then bb
  else if Nat.ltb size l then skipn (l - size) bb
  else repeat 0%N (size - l) ++ bb.

(* genSysRandom: padOrTrim(lastRand.Bytes(), 32) ++ submitter *)
Definition sys_content (last_rand : list N) (submitter : list N) : list N :=
  pad_or_trim last_rand rand_size ++ submitter.

(* genUserRandom: requestId.Bytes() ++ lastRand.Bytes() ++ userSeed.Bytes() ++ submitter *)
Definition user_content (req_id last_rand seed submitter : list N) : list N :=
  req_id ++ last_rand ++ seed ++ submitter.

(* genQueryResult: parsed document ++ submitter *)
Definition query_content (result submitter : list N) : list N := result ++ submitter.

(* recoverSign: the submitted result is the signed content without its last 20 bytes;
   make([]byte, t) with t < 0 panics *)
Definition strip (content : list N) : res (list N) :=
  if Nat.ltb (length content) addr_len then Panic
  else Ok (firstn (length content - addr_len) content).

(* choseSubmitter: lastSysRand.Uint64() % len(ids); Uint64 of a non-negative big.Int is its low
   64 bits; a zero-length member list is an integer division by zero *)
Definition submitter_index (r : N) (n : N) : res N :=
  if N.eqb n 0 then Panic else Ok ((r mod 18446744073709551616) mod n)%N.

Definition submitter (r : N) (ids : list (list N)) : res (list N) :=
  match submitter_index r (N.of_nat (length ids)) with
  | Ok i => match nth_error ids (N.to_nat i) with Some a => Ok a | None => Panic end
  | Err => Err
  | Panic => Panic
  end.

Definition vb (l : list val) : list (list N) := map (fun v => match v with VB b => b | _ => [] end) l.

Definition entry_stages (op : Z) (args : list val) : val :=
  match op, args with
  | 1%Z, [VB bb; VZ size] => VB (pad_or_trim bb (Z.to_nat size))
  | 2%Z, [VZ r; VL ids] => res_val VB (submitter (Z.to_N r) (vb ids))
  | 3%Z, [VZ r; VB sub] => VB (sys_content (be_min (Z.to_N r)) sub)
  | 4%Z, [VZ id; VZ r; VZ seed; VB sub] =>
      VB (user_content (be_min (Z.to_N id)) (be_min (Z.to_N r)) (be_min (Z.to_N seed)) sub)
  | 5%Z, [VB resu; VB sub] => VB (query_content resu sub)
  | 6%Z, [VB content] => res_val VB (strip content)
  | 7%Z, [VZ n] => VB (be_min (Z.to_N n))
  | _, _ => VErr
  end.
