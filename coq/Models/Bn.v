(* Bn.v -- value-level model of /repo/group/bn256: base field, quadratic extension, the curve
   y^2 = x^3 + 3 over F_p (G1) and its twist over F_p^2 (G2) in Jacobian coordinates with the
   formulas of curve.go / twist.go, scalar multiplication, and the wire codecs of point.go.
   "Value level": a gfP holds a residue in Montgomery form; multiplication by R is a bijection
   that commutes with every operation used, so the model works on the residues themselves
   (the Montgomery arithmetic itself is the subject of Gen/GfpAsm.v). *)
From Coq Require Import ZArith List Bool.
From DosVerif Require Import Base.Val Base.Field Gen.BnConsts.
Import ListNotations.
Local Open Scope Z_scope.

(* the constants come from the source on every run (translate/run.py -> Gen/BnConsts.v) *)
Definition bn_p : Z := Eval vm_compute in src_p.
Definition bn_q : Z := Eval vm_compute in src_order.

(* ---------------------------------------------------------------- F_p^2 = F_p[i]/(i^2+1), element x*i + y *)

Section Fp2.
Context {K : Type}.
Variable O : Fops K.
Notation "a +k b" := (fadd O a b) (at level 50, left associativity).
Notation "a *k b" := (fmul O a b) (at level 40, left associativity).
Notation "a -k b" := (fsub O a b) (at level 50, left associativity).

Record fp2 : Type := mkfp2 { c1 : K; c0 : K }.   (* gfP2{x, y}: value x*i + y *)

Definition fp2_add (a b : fp2) := mkfp2 (c1 a +k c1 b) (c0 a +k c0 b).
Definition fp2_sub (a b : fp2) := mkfp2 (c1 a -k c1 b) (c0 a -k c0 b).
Definition fp2_neg (a : fp2) := mkfp2 (fopp O (c1 a)) (fopp O (c0 a)).
(* gfP2.Mul *)
Definition fp2_mul (a b : fp2) :=
  mkfp2 ((c1 a *k c0 b) +k (c1 b *k c0 a)) ((c0 a *k c0 b) -k (c1 a *k c1 b)).
(* gfP2.Square: (y-x)(x+y), 2xy *)
Definition fp2_square (a : fp2) :=
  mkfp2 ((c1 a *k c0 a) +k (c1 a *k c0 a)) ((c0 a -k c1 a) *k (c1 a +k c0 a)).
(* gfP2.Invert: conj / norm *)
Definition fp2_inv (a : fp2) :=
  let inv := finv O ((c1 a *k c1 a) +k (c0 a *k c0 a)) in
  mkfp2 (fopp O (c1 a) *k inv) (c0 a *k inv).
Definition fp2_eqb (a b : fp2) := feqb O (c1 a) (c1 b) && feqb O (c0 a) (c0 b).

Definition fp2_ops : Fops fp2 :=
  {| f0 := mkfp2 (f0 O) (f0 O); f1 := mkfp2 (f0 O) (f1 O);
     fadd := fp2_add; fmul := fp2_mul; fsub := fp2_sub; fopp := fp2_neg; finv := fp2_inv;
     feqb := fp2_eqb; fofZ := fun z => mkfp2 (f0 O) (fofZ O z) |}.
End Fp2.
Arguments mkfp2 {K}. Arguments c1 {K}. Arguments c0 {K}.

(* ---------------------------------------------------------------- Jacobian points over any field *)

Section Jac.
Context {K : Type}.
Variable O : Fops K.
Variable curve_b : K.
Notation "a +k b" := (fadd O a b) (at level 50, left associativity).
Notation "a *k b" := (fmul O a b) (at level 40, left associativity).
Notation "a -k b" := (fsub O a b) (at level 50, left associativity).
Notation zero := (f0 O). Notation one := (f1 O).

Record jac : Type := mkjac { jx : K; jy : K; jz : K }.

Definition jac_inf : jac := mkjac zero one zero.
Definition is_inf (a : jac) : bool := feqb O (jz a) zero.

(* curvePoint.Double / twistPoint.Double (dbl-2009-l) *)
Definition jac_double (a : jac) : jac :=
  let A := jx a *k jx a in
  let B := jy a *k jy a in
  let C := B *k B in
  let t := jx a +k B in
  let t2 := t *k t in
  let t := t2 -k A in
  let t2 := t -k C in
  let d := t2 +k t2 in
  let t := A +k A in
  let e := t +k A in
  let f := e *k e in
  let t := d +k d in
  let x3 := f -k t in
  let t := C +k C in
  let t2 := t +k t in
  let t := t2 +k t2 in
  let y3 := d -k x3 in
  let t2 := e *k y3 in
  let y3 := t2 -k t in
  let yz := jy a *k jz a in
  mkjac x3 y3 (yz +k yz).

(* curvePoint.Add / twistPoint.Add (add-2007-bl) *)
Definition jac_add (a b : jac) : jac :=
  if is_inf a then b
  else if is_inf b then a
  else
    let z12 := jz a *k jz a in
    let z22 := jz b *k jz b in
    let u1 := jx a *k z22 in
    let u2 := jx b *k z12 in
    let t := jz b *k z22 in
    let s1 := jy a *k t in
    let t := jz a *k z12 in
    let s2 := jy b *k t in
    let h := u2 -k u1 in
    let xEqual := feqb O h zero in
    let t := h +k h in
    let i := t *k t in
    let j := h *k i in
    let t := s2 -k s1 in
    let yEqual := feqb O t zero in
    if xEqual && yEqual then jac_double a
    else
      let r := t +k t in
      let v := u1 *k i in
      let t4 := r *k r in
      let t := v +k v in
      let t6 := t4 -k j in
      let x3 := t6 -k t in
      let t := v -k x3 in
      let t4 := s1 *k j in
      let t6 := t4 +k t4 in
      let t4 := r *k t in
      let y3 := t4 -k t6 in
      let t := jz a +k jz b in
      let t4 := t *k t in
      let t := t4 -k z12 in
      let t4 := t -k z22 in
      mkjac x3 y3 (t4 *k h).

Definition jac_neg (a : jac) : jac := mkjac (jx a) (fopp O (jy a)) (jz a).

(* Mul: for i := BitLen down to 0: t = 2*sum; sum = t + a if bit i else t.  [bits]: most
   significant first, preceded by the (zero) bit number BitLen. *)
Fixpoint jac_mul_bits (a : jac) (bits : list bool) (sum : jac) : jac :=
  match bits with
  | [] => sum
  | b :: rest =>
    let t := jac_double sum in
    jac_mul_bits a rest (if b then jac_add t a else t)
  end.

Fixpoint pos_bits (p : positive) (acc : list bool) : list bool :=
  match p with
  | xH => true :: acc
  | xO p' => pos_bits p' (false :: acc)
  | xI p' => pos_bits p' (true :: acc)
  end.

Definition z_bits (k : Z) : list bool :=
  match k with Zpos p => false :: pos_bits p [] | _ => [false] end.

(* start: curvePoint.Mul starts from the point at infinity; twistPoint.Mul from the zero value
   (0,0,0), which Double maps to itself and Add treats as infinity *)
Definition jac_mul (start : jac) (a : jac) (k : Z) : jac := jac_mul_bits a (z_bits k) start.

(* MakeAffine: z = 1 unchanged; z = 0 -> (0,1,0); otherwise divide *)
Definition make_affine (a : jac) : jac :=
  if feqb O (jz a) one then a
  else if feqb O (jz a) zero then mkjac zero one zero
  else
    let zInv := finv O (jz a) in
    let t := jy a *k zInv in
    let zInv2 := zInv *k zInv in
    mkjac (jx a *k zInv2) (t *k zInv2) one.

(* the curve equation on an affine point (IsOnCurve before any subgroup test) *)
Definition on_curve_affine (a : jac) : bool :=
  let a := make_affine a in
  if is_inf a then true
  else feqb O (jy a *k jy a) ((jx a *k jx a *k jx a) +k curve_b).

End Jac.
Arguments mkjac {K}. Arguments jx {K}. Arguments jy {K}. Arguments jz {K}.

(* ---------------------------------------------------------------- the two concrete groups *)

Definition Fp := zq bn_p.
Definition fp_ops : Fops Fp := zq_ops bn_p.
Definition fp_of (z : Z) : Fp := zq_of bn_p z.
Definition Fp2 := fp2 (K:=Fp).
Definition fp2o : Fops Fp2 := fp2_ops fp_ops.

Definition g1_b : Fp := fp_of src_curve_b.
(* twistB = 3/(i+9) *)
Definition g2_b : Fp2 := mkfp2 (fp_of (fst src_twist_b)) (fp_of (snd src_twist_b)).

Definition g1_gen : jac (K:=Fp) :=
  let '(x, y, z) := src_curve_gen in mkjac (fp_of x) (fp_of y) (fp_of z).
Definition g2_gen : jac (K:=Fp2) :=
  let '((xi, xr), (yi, yr)) := src_twist_gen in
  mkjac (mkfp2 (fp_of xi) (fp_of xr)) (mkfp2 (fp_of yi) (fp_of yr)) (mkfp2 (fp_of 0) (fp_of 1)).

Definition g1_mul (a : jac (K:=Fp)) (k : Z) := jac_mul fp_ops (jac_inf fp_ops) a k.
Definition g2_zero : jac (K:=Fp2) := mkjac (f0 fp2o) (f0 fp2o) (f0 fp2o).
Definition g2_mul (a : jac (K:=Fp2)) (k : Z) := jac_mul fp2o g2_zero a k.

Definition g1_on_curve (a : jac (K:=Fp)) : bool := on_curve_affine fp_ops g1_b a.
(* twistPoint.IsOnCurve: curve equation, then [Order]c = O *)
Definition g2_on_curve (a : jac (K:=Fp2)) : bool :=
  let a := make_affine fp2o a in
  if is_inf fp2o a then true
  else if on_curve_affine fp2o g2_b a then is_inf fp2o (g2_mul a bn_q) else false.

(* ---------------------------------------------------------------- wire codecs (point.go) *)

Fixpoint be_bytes (k : nat) (n : Z) : list N :=
  match k with O => [] | S k' => be_bytes k' (n / 256) ++ [Z.to_N (n mod 256)] end.
Definition be_val (l : list N) : Z := fold_left (fun acc b => acc * 256 + Z.of_N b) l 0.

Definition g1_marshal (a : jac (K:=Fp)) : list N :=
  let a := make_affine fp_ops a in
  if is_inf fp_ops a then repeat 0%N 64
  else be_bytes 32 (zv (jx a)) ++ be_bytes 32 (zv (jy a)).

Definition g1_unmarshal (buf : list N) : option (jac (K:=Fp)) :=
  if Nat.ltb (length buf) 64 then None
  else
    let x := fp_of (be_val (firstn 32 buf)) in
    let y := fp_of (be_val (firstn 32 (skipn 32 buf))) in
    let pt := if feqb fp_ops x (f0 fp_ops) && feqb fp_ops y (f0 fp_ops)
              then jac_inf fp_ops else mkjac x y (f1 fp_ops) in
    if g1_on_curve pt then Some pt else None.

Definition g2_marshal (a : jac (K:=Fp2)) : list N :=
  let a := make_affine fp2o a in
  if is_inf fp2o a then [0%N]
  else [1%N] ++ be_bytes 32 (zv (c1 (jx a))) ++ be_bytes 32 (zv (c0 (jx a)))
             ++ be_bytes 32 (zv (c1 (jy a))) ++ be_bytes 32 (zv (c0 (jy a))).

Definition g2_unmarshal (buf : list N) : option (jac (K:=Fp2)) :=
  match buf with
  | 0%N :: _ => Some (mkjac (f0 fp2o) (f1 fp2o) (f0 fp2o))
  | 1%N :: rest =>
    if Nat.ltb (length buf) 129 then None
    else
      let w i := fp_of (be_val (firstn 32 (skipn (32 * i) rest))) in
      let x := mkfp2 (w 0%nat) (w 1%nat) in
      let y := mkfp2 (w 2%nat) (w 3%nat) in
      if fp2_eqb fp_ops x (f0 fp2o) && fp2_eqb fp_ops y (f0 fp2o)
      then Some (mkjac (f0 fp2o) (f1 fp2o) (f0 fp2o))
      else let pt := mkjac x y (f1 fp2o) in if g2_on_curve pt then Some pt else None
  | _ => None      (* empty, or a first byte other than 0 / 1 *)
  end.

(* mod.Int: 32 bytes big-endian, value below the order *)
Definition scalar_marshal (k : Z) : list N := be_bytes 32 (k mod bn_q).
Definition scalar_unmarshal (buf : list N) : option Z :=
  if negb (Nat.eqb (length buf) 32) then None
  else let v := be_val buf in if v <? bn_q then Some v else None.

(* affine coordinates as numbers, for printing *)
Definition g1_affine_val (a : jac (K:=Fp)) : val :=
  let a := make_affine fp_ops a in
  if is_inf fp_ops a then VNone else VL [VZ (zv (jx a)); VZ (zv (jy a))].
