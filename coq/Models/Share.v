(* Share.v -- model of /repo/share/poly.go (Shamir sharing, Feldman commitments), generic over the
   scalar field operations [O] and the commitment module [M].  Follows the source statement by
   statement; see DESIGN.md section 5, C09. *)
From Coq Require Import ZArith List Bool.
From DosVerif Require Import Base.Val Base.Field.
Import ListNotations.
Local Open Scope Z_scope.

Section Share.
Context {F G : Type}.
Variable O : Fops F.
Variable M : Gops F G.
(* Scalar.Div by zero: kyber's mod.Int dereferences the nil that ModInverse returns (panic);
   the Ed25519 scalar computes 0^(l-2) = 0 and goes on. *)
Variable div0_panics : bool.

Notation "a +f b" := (fadd O a b) (at level 50, left associativity).
Notation "a *f b" := (fmul O a b) (at level 40, left associativity).
Notation "a -f b" := (fsub O a b) (at level 50, left associativity).

(* PriPoly.Eval / PubPoly.Eval: Horner from the top coefficient down. *)
Definition horner (p : list F) (x : F) : F :=
  fold_right (fun c acc => (acc *f x) +f c) (f0 O) p.

Definition node (i : Z) : F := fofZ O (1 + i).

Definition eval (p : list F) (i : Z) : F := horner p (node i).

Definition shares (p : list F) (n : nat) : list (Z * F) :=
  map (fun i => (Z.of_nat i, eval p (Z.of_nat i))) (seq 0 n).

(* PriPoly.Add / PubPoly.Add: component-wise, error on different length. *)
Fixpoint zip_with {A B C} (f : A -> B -> C) (a : list A) (b : list B) : list C :=
  match a, b with x :: a', y :: b' => f x y :: zip_with f a' b' | _, _ => [] end.

Definition pri_add (p q : list F) : option (list F) :=
  if Nat.eqb (length p) (length q) then Some (zip_with (fadd O) p q) else None.

Fixpoint list_eqb {A} (e : A -> A -> bool) (a b : list A) : bool :=
  match a, b with
  | [], [] => true
  | x :: a', y :: b' => e x y && list_eqb e a' b'
  | _, _ => false
  end.

(* PriPoly.Equal: length test, then all coefficients. *)
Definition pri_equal (p q : list F) : bool :=
  Nat.eqb (length p) (length q) && list_eqb (feqb O) p q.

(* PriPoly.Commit *)
Definition commit (base : G) (p : list F) : list G := map (fun c => gscale M c base) p.

Definition ghorner (p : list G) (x : F) : G :=
  fold_right (fun c acc => gadd M (gscale M x acc) c) (g0 M) p.

Definition pub_eval (p : list G) (i : Z) : G := ghorner p (node i).

Definition pub_add (p q : list G) : option (list G) :=
  if Nat.eqb (length p) (length q) then Some (zip_with (gadd M) p q) else None.

(* PubPoly.Equal as repaired ("fix:" commit): length test first, then all commitments. *)
Definition pub_equal (p q : list G) : bool :=
  Nat.eqb (length p) (length q) && list_eqb (geqb M) p q.

(* PubPoly.Equal as it was before the repair: iterate over the receiver's commitments and index
   the argument's; out of range = panic, a strict prefix compares equal. *)
Fixpoint pub_equal_old (p q : list G) : res bool :=
  match p with
  | [] => Ok true
  | x :: p' => match q with
               | [] => Panic
               | y :: q' => match pub_equal_old p' q' with
                            | Ok b => Ok (geqb M x y && b)
                            | r => r
                            end
               end
  end.

(* PubPoly.Check *)
Definition check (base : G) (p : list G) (i : Z) (v : F) : bool :=
  geqb M (pub_eval p i) (gscale M v base).

(* A share as the recovery routines see it: None = nil pointer; the value None = nil V. *)
Definition pshare (V : Type) : Type := option (Z * option V).

(* xScalar: walk the slice, keep usable entries (position, abscissa, value), stop when [t]
   have been kept (t = None: no limit, as in RecoverCommit). *)
Fixpoint usable {V} (sh : list (pshare V)) (n : Z) (pos : nat) (limit : option nat)
  : list (nat * F * V) :=
  match limit with
  | Some 0%nat => []
  | _ =>
    match sh with
    | [] => []
    | s :: rest =>
      match s with
      | Some (i, Some v) =>
        if (0 <=? i) && (i <? n) then
          (pos, node i, v) ::
          usable rest n (S pos) (match limit with Some (S k) => Some k | _ => limit end)
        else usable rest n (S pos) limit
      | _ => usable rest n (S pos) limit
      end
    end
  end.

(* Go's xScalar inserts first and tests [len(x) == t] afterwards, so with t <= 0 nothing stops
   the walk. *)
Definition x_scalar {V} (sh : list (pshare V)) (t : Z) (n : Z) : list (nat * F * V) :=
  usable sh n 0 (if 0 <? t then Some (Z.to_nat t) else None).

(* Lagrange numerator / denominator for entry [e] over all entries at other positions. *)
Definition lag_num {V} (xs : list (nat * F * V)) (pos : nat) (start : F) : F :=
  fold_left (fun acc e => let '(p, x, _) := e in if Nat.eqb p pos then acc else acc *f x) xs start.

Definition lag_den {V} (xs : list (nat * F * V)) (pos : nat) (xi : F) : F :=
  fold_left (fun acc e => let '(p, x, _) := e in
                          if Nat.eqb p pos then acc else acc *f (x -f xi)) xs (f1 O).

Definition div_chk (a b : F) : res F :=
  if feqb O b (f0 O) then (if div0_panics then Panic else Ok (a *f finv O b))
  else Ok (a *f finv O b).

(* RecoverSecret *)
Definition recover_secret (sh : list (pshare F)) (t n : Z) : res F :=
  let xs := x_scalar sh t n in
  if Z.of_nat (length xs) <? t then Err
  else fold_left (fun acc e =>
         let '(p, xi, v) := e in
         res_bind acc (fun a =>
         res_bind (div_chk (lag_num xs p v) (lag_den xs p xi)) (fun term => Ok (a +f term))))
       xs (Ok (f0 O)).

(* PriPoly.Mul: schoolbook product; by a linear factor is all RecoverPriPoly needs. *)
Definition pscale (k : F) (p : list F) : list F := map (fun c => k *f c) p.
Fixpoint padd (p q : list F) : list F :=
  match p, q with
  | [], _ => q
  | _, [] => p
  | a :: p', b :: q' => (a +f b) :: padd p' q'
  end.
Fixpoint pmul (p q : list F) : list F :=
  match p with
  | [] => []
  | a :: p' => padd (pscale a q) (f0 O :: pmul p' q)
  end.

(* RecoverPriPoly *)
Definition basis_for (xs : list (nat * F * F)) (pos : nat) : list F :=
  fold_left (fun b e => let '(p, xm, _) := e in
                        if Nat.eqb p pos then b else pmul b [fopp O xm; f1 O]) xs [f1 O].

(* den.Inv(den) on a zero difference leaves 0 (ModInverse's nil result is discarded), so no
   panic here: finv is total. *)
Definition acc_for (xs : list (nat * F * F)) (pos : nat) (xj v : F) : F :=
  fold_left (fun a e => let '(p, xm, _) := e in
                        if Nat.eqb p pos then a else a *f finv O (xj -f xm)) xs v.

Definition sum_polys (xs : list (nat * F * F)) : option (list F) :=
  fold_left (fun accp e =>
               let '(p, xj, v) := e in
               let b := pscale (acc_for xs p xj v) (basis_for xs p) in
               match accp with None => Some b | Some a => Some (padd a b) end) xs None.

Definition recover_pripoly (sh : list (pshare F)) (t n : Z) : res (list F) :=
  let xs := x_scalar sh t n in
  if negb (Z.of_nat (length xs) =? t) then Err
  else match sum_polys xs with
       | Some p => Ok p
       | None => Panic   (* t = 0: a nil polynomial is returned; every use dereferences it *)
       end.

(* RecoverCommit: every usable entry takes part (no stop at t). *)
Definition recover_commit (sh : list (pshare G)) (t n : Z) : res G :=
  let xs := usable sh n 0 None in
  if Z.of_nat (length xs) <? t then Err
  else fold_left (fun acc e =>
         let '(p, xi, v) := e in
         res_bind acc (fun a =>
         res_bind (div_chk (lag_num xs p (f1 O)) (lag_den xs p xi)) (fun c =>
         Ok (gadd M a (gscale M c v)))))
       xs (Ok (g0 M)).

End Share.
