(* Ed.v -- the Ed25519 group of /repo/group/edwards25519 at the level of field values: the four
   point representations of ge.go (extended, cached, completed, projective) with their formulas
   written operation by operation as in the source, the point operations of point.go built from
   them (Add, Sub, Neg, Mul), and the encoding (ToBytes / FromBytes).  Field elements are residues
   modulo 2^255-19 (fe.go's ten-limb arithmetic is NOT modelled: a fieldElement is the residue it
   stands for).  The formulas are stated over any field in a section, so that the theorems of
   Proofs/EdProofs.v hold for every field; the executable instance is Z/(2^255-19). *)
From Coq Require Import ZArith NArith List Bool.
From DosVerif Require Import Base.Val Base.Field Gen.EdConsts.
Import ListNotations.

Section EdFormulas.
Context {K : Type}.
Variable O : Fops K.
Variable d d2 sqrtm1 : K.      (* the curve constant, twice it, a square root of -1 *)
Notation "a +k b" := (fadd O a b) (at level 50, left associativity).
Notation "a -k b" := (fsub O a b) (at level 50, left associativity).
Notation "a *k b" := (fmul O a b) (at level 40, left associativity).

Record ext : Type := mkext { eX : K; eY : K; eZ : K; eT : K }.          (* extendedGroupElement *)
Record cached : Type := mkcached { cYpX : K; cYmX : K; cZ : K; cT2d : K }.
Record compl : Type := mkcompl { rX : K; rY : K; rZ : K; rT : K }.       (* completedGroupElement *)
Record proj : Type := mkproj { pX : K; pY : K; pZ : K }.

Definition ext_zero : ext := mkext (f0 O) (f1 O) (f1 O) (f0 O).

(* extendedGroupElement.ToCached *)
Definition to_cached (p : ext) : cached :=
  mkcached (eY p +k eX p) (eY p -k eX p) (eZ p) (eT p *k d2).

(* completedGroupElement.Add / Sub *)
Definition c_add (p : ext) (q : cached) : compl :=
  let cx := eY p +k eX p in
  let cy := eY p -k eX p in
  let cz := cx *k cYpX q in
  let cy := cy *k cYmX q in
  let ct := cT2d q *k eT p in
  let cx := eZ p *k cZ q in
  let t0 := cx +k cx in
  let cx := cz -k cy in
  let cy := cz +k cy in
  let cz := t0 +k ct in
  let ct := t0 -k ct in
  mkcompl cx cy cz ct.

Definition c_sub (p : ext) (q : cached) : compl :=
  let cx := eY p +k eX p in
  let cy := eY p -k eX p in
  let cz := cx *k cYmX q in
  let cy := cy *k cYpX q in
  let ct := cT2d q *k eT p in
  let cx := eZ p *k cZ q in
  let t0 := cx +k cx in
  let cx := cz -k cy in
  let cy := cz +k cy in
  let cz := t0 -k ct in
  let ct := t0 +k ct in
  mkcompl cx cy cz ct.

(* completedGroupElement.ToExtended / ToProjective *)
Definition to_ext (c : compl) : ext := mkext (rX c *k rT c) (rY c *k rZ c) (rZ c *k rT c) (rX c *k rY c).
Definition to_proj (c : compl) : proj := mkproj (rX c *k rT c) (rY c *k rZ c) (rZ c *k rT c).

(* projectiveGroupElement.Double *)
Definition p_double (p : proj) : compl :=
  let rx := pX p *k pX p in
  let rz := pY p *k pY p in
  let rt := (pZ p *k pZ p) +k (pZ p *k pZ p) in
  let ry := pX p +k pY p in
  let t0 := ry *k ry in
  let ry := rz +k rx in
  let rz := rz -k rx in
  let rx := t0 -k ry in
  let rt := rt -k rz in
  mkcompl rx ry rz rt.

(* point.Add / Sub / Neg *)
Definition pt_add (p q : ext) : ext := to_ext (c_add p (to_cached q)).
Definition pt_sub (p q : ext) : ext := to_ext (c_sub p (to_cached q)).
Definition pt_neg (p : ext) : ext := mkext (fopp O (eX p)) (eY p) (eZ p) (fopp O (eT p)).
Definition pt_double (p : ext) : ext := to_ext (p_double (mkproj (eX p) (eY p) (eZ p))).

(* geScalarMult: the scalar as 64 signed radix-16 digits e_63 .. e_0 (each in -8..8), a table of
   1A..8A in cached form; start from the top digit, then per digit four doublings and one addition
   of the selected (possibly negated, possibly zero) table entry *)
Definition cached_zero : cached := mkcached (f1 O) (f1 O) (f1 O) (f0 O).
Definition cached_neg (c : cached) : cached := mkcached (cYmX c) (cYpX c) (cZ c) (fopp O (cT2d c)).

Fixpoint table (n : nat) (A : ext) (last : cached) : list cached :=
  match n with
  | 0%nat => []
  | S n' => let nxt := to_cached (to_ext (c_add A last)) in nxt :: table n' A nxt
  end.

Definition select (tbl : list cached) (b : Z) : cached :=   (* selectCached: |b| in 0..8 *)
  let babs := Z.abs b in
  let t := if (babs =? 0)%Z then cached_zero else nth (Z.to_nat (babs - 1)) tbl cached_zero in
  if (b <? 0)%Z then cached_neg t else t.

Definition quad (c : compl) : compl :=
  p_double (to_proj (p_double (to_proj (p_double (to_proj (p_double (to_proj c))))))).

Fixpoint mul_digits (tbl : list cached) (ds : list Z) (t : compl) : compl :=
  match ds with
  | [] => t
  | e :: rest => mul_digits tbl rest (c_add (to_ext (quad t)) (select tbl e))
  end.

Definition pt_mul_digits (ds : list Z) (A : ext) : ext :=
  let a0 := to_cached A in
  let tbl := a0 :: table 7 A a0 in
  match ds with
  | [] => ext_zero
  | top :: rest => to_ext (mul_digits tbl rest (c_add ext_zero (select tbl top)))
  end.

(* affine coordinates and the curve *)
Definition ax (p : ext) : K := eX p *k finv O (eZ p).
Definition ay (p : ext) : K := eY p *k finv O (eZ p).

End EdFormulas.

Arguments mkext {K}. Arguments mkcached {K}. Arguments mkcompl {K}. Arguments mkproj {K}.

(* ---------------------------------------------------------------- the digits of geScalarMult *)

(* nybbles, least significant first, then the carry pass: e[i] += carry; carry = (e[i]+8)>>4;
   e[i] -= carry<<4, the last digit takes the final carry *)
Fixpoint nybbles (n : nat) (a : Z) : list Z :=
  match n with O => [] | S n' => (a mod 16)%Z :: nybbles n' (a / 16)%Z end.

Fixpoint recode (es : list Z) (carry : Z) : list Z :=
  match es with
  | [] => []
  | [e] => [(e + carry)%Z]
  | e :: rest =>
      let e1 := (e + carry)%Z in
      let c := ((e1 + 8) / 16)%Z in
      (e1 - c * 16)%Z :: recode rest c
  end.

Definition digits_msf (a : Z) : list Z := rev (recode (nybbles 64 a) 0).

(* ---------------------------------------------------------------- the instance Z/(2^255-19) *)

Definition ed_p : Z := src_ed_p.
Definition ed_l : Z := src_ed_l.
Definition Fe : Type := zq ed_p.
Definition fe_of (z : Z) : Fe := zq_of ed_p z.
Definition fe_ops : Fops Fe := zq_ops ed_p.
Definition ed_d : Fe := fe_of src_ed_d.
Definition ed_d2 : Fe := fe_of src_ed_d2.
Definition ed_sqrtm1 : Fe := fe_of src_ed_sqrtm1.
Definition ed_base : ext (K:=Fe) :=
  let '(x, y, z, t) := src_ed_base in mkext (fe_of x) (fe_of y) (fe_of z) (fe_of t).

Definition ed_add := pt_add fe_ops ed_d2.
Definition ed_sub := pt_sub fe_ops ed_d2.
Definition ed_neg := pt_neg fe_ops.
(* point.Mul: the scalar is a reduced scalar (below the group order) *)
Definition ed_mul (k : Z) (A : ext (K:=Fe)) : ext := pt_mul_digits fe_ops ed_d2 (digits_msf (k mod ed_l)) A.

(* ToBytes: y little-endian, the top bit carries the parity of x *)
Fixpoint le_bytes (k : nat) (n : Z) : list N :=
  match k with O => [] | S k' => Z.to_N (n mod 256) :: le_bytes k' (n / 256) end.

Definition ed_encode (p : ext (K:=Fe)) : list N :=
  let x := zv (ax fe_ops p) in
  let y := zv (ay fe_ops p) in
  le_bytes 32 (y + (x mod 2) * 2 ^ 255).

(* ---------------------------------------------------------------- entry point *)

Definition entry_ed (op : Z) (args : list val) : val :=
  match op, args with
  | 1%Z, [VZ k] => VB (ed_encode (ed_mul k ed_base))                                       (* [k]B *)
  | 2%Z, [VZ a; VZ b] => VB (ed_encode (ed_add (ed_mul a ed_base) (ed_mul b ed_base)))     (* [a]B + [b]B *)
  | 3%Z, [VZ a; VZ b] => VB (ed_encode (ed_sub (ed_mul a ed_base) (ed_mul b ed_base)))
  | 4%Z, [VZ a] => VB (ed_encode (ed_neg (ed_mul a ed_base)))
  | 5%Z, [VZ a; VZ b] => VB (ed_encode (ed_mul a (ed_mul b ed_base)))                      (* [a]([b]B) *)
  | 6%Z, [VZ a; VZ b] => VB (ed_encode (ed_add (ed_mul a ed_base) (ed_neg (ed_mul b ed_base))))
  | _, _ => VErr
  end.
