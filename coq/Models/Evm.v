(* Evm.v -- (a) sign/bls/bls.go at the value level on top of Bn.v / BnPairing.v, and (b) the
   predicate the DOS proxy contract evaluates with the EVM precompiles, written from EIP-196/197:
     ecMul(P, s)        s is a 256-bit integer, NOT reduced
     ecPairing(pairs)   every coordinate must be < p, points on their curves, G2 in the subgroup,
                        (0,0) resp. (0,0,0,0) is the identity; result: product of pairings = 1
   and from the contract (BN256.sol): negate(P) = (P.x, p - P.y mod p) (identity fixed),
   hashToG1(m) = ecMul((1,2), keccak256(m)),
   verify: ecPairing(negate(sig), G2gen, hashToG1(m), pk). *)
From Coq Require Import ZArith List Bool.
From DosVerif Require Import Base.Val Base.Field Gen.BnConsts Models.Bn Models.BnPairing.
Import ListNotations.
Local Open Scope Z_scope.

(* ---------------------------------------------------------------- the library (bls.Verify) *)

Definition g2_gen_tpt : tpt := tpt_of_jac g2_gen fp2_one.

(* X: the public key as the group code holds it; h = keccak256(msg) as an integer *)
Definition bls_verify_lib (X : tpt) (h : Z) (sig : list N) : res bool :=
  match g1_unmarshal sig with
  | None => Err
  | Some Sg =>
    let HM := g1_mul g1_gen (h mod bn_q) in        (* Scalar().SetBytes reduces *)
    Ok (pairing_check [(jac_neg fp_ops Sg, g2_gen_tpt); (HM, X)])
  end.

(* bls.Sign: x * H(m), marshalled *)
Definition bls_sign_lib (x : Z) (h : Z) : list N :=
  g1_marshal (g1_mul (g1_mul g1_gen (h mod bn_q)) (x mod bn_q)).

(* ---------------------------------------------------------------- the EVM side *)

Definition evm_g1_dec (b : list N) : option (jac (K:=Fp)) :=
  if negb (Nat.eqb (length b) 64) then None
  else
    let x := be_val (firstn 32 b) in
    let y := be_val (skipn 32 b) in
    if (bn_p <=? x) || (bn_p <=? y) then None
    else if (x =? 0) && (y =? 0) then Some (jac_inf fp_ops)
    else let pt := mkjac (fp_of x) (fp_of y) (f1 fp_ops) in
         if g1_on_curve pt then Some pt else None.

Definition evm_g2_dec (b : list N) : option tpt :=
  if negb (Nat.eqb (length b) 128) then None
  else
    let w i := be_val (firstn 32 (skipn (32 * i) b)) in
    let xi := w 0%nat in let xr := w 1%nat in let yi := w 2%nat in let yr := w 3%nat in
    if (bn_p <=? xi) || (bn_p <=? xr) || (bn_p <=? yi) || (bn_p <=? yr) then None
    else if (xi =? 0) && (xr =? 0) && (yi =? 0) && (yr =? 0)
         then Some (mktpt fp2_zero fp2_one fp2_zero fp2_zero)
    else let pt := mkjac (mkfp2 (fp_of xi) (fp_of xr)) (mkfp2 (fp_of yi) (fp_of yr)) (f1 fp2o) in
         if g2_on_curve pt then Some (tpt_of_jac pt fp2_one) else None.

Definition evm_g1_enc (a : jac (K:=Fp)) : list N := g1_marshal a.

(* precompile 0x07 *)
Definition evm_ecmul (p : list N) (s : Z) : option (list N) :=
  match evm_g1_dec p with
  | None => None
  | Some P => Some (evm_g1_enc (g1_mul P s))
  end.

(* the contract's negate *)
Definition contract_negate (p : list N) : list N :=
  let x := be_val (firstn 32 p) in
  let y := be_val (skipn 32 p) in
  if (x =? 0) && (y =? 0) then p
  else be_bytes 32 x ++ be_bytes 32 (bn_p - (y mod bn_p)).

(* precompile 0x08 on a list of (G1 bytes, G2 bytes) *)
Definition evm_pairing (pairs : list (list N * list N)) : option bool :=
  let dec := map (fun ab => match evm_g1_dec (fst ab), evm_g2_dec (snd ab) with
                            | Some a, Some b => Some (a, b) | _, _ => None end) pairs in
  if forallb (fun o => match o with Some _ => true | None => false end) dec
  then Some (pairing_check (flat_map (fun o => match o with Some ab => [ab] | None => [] end) dec))
  else None.

Definition g2_gen_evm : list N := skipn 1 (g2_marshal g2_gen).
Definition g1_gen_evm : list N := g1_marshal g1_gen.

(* the contract's verification of (pk, msg hash, sig), all as byte strings; None = a precompile reverted *)
Definition contract_check (pk : list N) (h : Z) (sig : list N) : option bool :=
  match evm_ecmul g1_gen_evm h with
  | None => None
  | Some hm => evm_pairing [(contract_negate sig, g2_gen_evm); (hm, pk)]
  end.

(* ---------------------------------------------------------------- wire *)

Definition entry_evm (op : Z) (args : list val) : val :=
  match op, args with
  | 1, [VZ x; VZ h; VB sig] =>     (* bls.Verify under the key x*G2 *)
      res_val vbool (bls_verify_lib (tpt_of_jac (g2_mul g2_gen x) fp2_one) h sig)
  | 2, [VB pk; VZ h; VB sig] =>    (* the contract equation on byte strings *)
      match contract_check pk h sig with Some b => vbool b | None => VErr end
  | 3, [VZ x; VZ h] => VB (bls_sign_lib x h)
  | 4, [VZ x] => VB (g2_marshal (g2_mul g2_gen x))
  | _, _ => VErr
  end.
