(* EntryVss.v -- wire-level entry points of the Vss / Dkg models over Z/qZ. *)
From Coq Require Import ZArith List Bool.
From DosVerif Require Import Base.Val Base.Field Models.Share Models.Tbls Models.Vss Models.Dkg Models.EntryShare.
Import ListNotations.
Local Open Scope Z_scope.

Definition zlist (l : list val) : list Z := map (fun v => match v with VZ z => z | _ => 0 end) l.

Definition dec_sid (q : Z) (v : val) : sid (F:=zq q) :=
  match v with
  | VL [VZ 0; VZ d; VL m; VL c; VZ t] => Sid d (zlist m) (zs q c) t
  | VL [VZ 1; VZ k] => SidJunk k
  | _ => SidJunk (-1)
  end.

Definition dec_plain (q : Z) (v : val) : option (plain (F:=zq q)) :=
  match v with
  | VL [s; VL [VZ i; VZ x]; VZ t; VL c] => Some (mkplain (dec_sid q s) (Some (i, zq_of q x)) t (zs q c))
  | VL [s; VNone; VZ t; VL c] => Some (mkplain (dec_sid q s) None t (zs q c))
  | _ => None
  end.

Definition dec_edeal (q : Z) (v : val) : option (edeal (F:=zq q)) :=
  match v with
  | VL [VZ sk; VZ sb; VZ db; dp; VZ nl; VZ nn; VZ se; VZ sr; VZ sd; VL sm; VZ sn; VZ intact; pl] =>
      Some (mkedeal sk sb db (match dp with VZ k => Some k | _ => None end) nl nn se sr sd (zlist sm) sn
                    (is1 intact) (dec_plain q pl))
  | _ => None
  end.

Definition dec_resp (q : Z) (v : val) : option (response (F:=zq q)) :=
  match v with
  | VL [s; VZ i; VZ st; VZ k] => Some (mkresp (dec_sid q s) i (if st =? 1 then Approval else Complaint) k)
  | _ => None
  end.

Definition status_val (s : status) : val := VZ (match s with Approval => 1 | Complaint => 0 end).

Fixpoint sort_insert (x : Z) (l : list Z) : list Z :=
  match l with [] => [x] | y :: l' => if x <=? y then x :: l else y :: sort_insert x l' end.
Definition zsort (l : list Z) : list Z := fold_right sort_insert [] l.

(* a script over several generators *)
Fixpoint set_nth {A} (i : nat) (x : A) (l : list A) : list A :=
  match i, l with
  | O, _ :: l' => x :: l'
  | S i', y :: l' => y :: set_nth i' x l'
  | _, [] => []
  end.

Definition dec_node (q : Z) (v : val) : option (gen (F:=zq q)) :=
  match v with
  | VL [VZ idx; VZ key; VL members; VZ t; VL poly] =>
      Some (gen_init (zq_ops q) true idx key (zlist members) t (zs q poly))
  | _ => None
  end.

Definition run_dkg_op (q : Z) (fixed : bool) (nodes : list (gen (F:=zq q))) (op : val)
  : list (gen (F:=zq q)) * val :=
  match op with
  | VL [VZ 0; VZ target; VZ dealer; ed] =>          (* ProcessDeal on node target *)
      match nth_error nodes (Z.to_nat target) with
      | Some g =>
        let '(g', r) := process_deal (zq_ops q) fixed g dealer (dec_edeal q ed) in
        (set_nth (Z.to_nat target) g' nodes,
         res_val (fun r => VL [status_val (r_status r)]) r)
      | None => (nodes, VErr)
      end
  | VL [VZ 1; VZ target; VZ dealer; rd] =>          (* ProcessResponse on node target *)
      match nth_error nodes (Z.to_nat target) with
      | Some g =>
        match process_response_dkg (zq_ops q) fixed g dealer (dec_resp q rd) with
        | Ok g' => (set_nth (Z.to_nat target) g' nodes, VZ 1)
        | Err => (nodes, VErr)
        | Panic => (nodes, VPanic)
        end
      | None => (nodes, VErr)
      end
  | VL [VZ 2; VZ target] =>                         (* Certified / QUAL / DistKeyShare *)
      match nth_error nodes (Z.to_nat target) with
      | Some g =>
        (nodes, VL [vbool (certified g); VL (map VZ (zsort (qual g)));
                    res_val (fun cs => VL [VL (map (fun c => VG 2 (zv c)) (fst cs)); VZ (zv (snd cs))])
                            (dist_key_share (zq_ops q) g)])
      | None => (nodes, VErr)
      end
  | _ => (nodes, VErr)
  end.

Fixpoint run_dkg_ops (q : Z) (fixed : bool) (nodes : list (gen (F:=zq q))) (ops : list val) : list val :=
  match ops with
  | [] => []
  | op :: rest => let '(nodes', r) := run_dkg_op q fixed nodes op in r :: run_dkg_ops q fixed nodes' rest
  end.

Definition entry_vss (op : Z) (args : list val) : val :=
  match op, args with
  | 1, [VZ q; VZ fixed; VZ key; VZ dealer; VZ index; VL members; ed] =>     (* Verifier.ProcessEncryptedDeal *)
      let v := mkver key dealer index (zlist members) None in
      res_val (fun vr => VL [status_val (r_status (snd vr))])
              (process_encrypted_deal (zq_ops q) (is1 fixed) v (dec_edeal q ed))
  | 2, [VZ q; VZ fixed; VL nodes; VL ops] =>                               (* a script over generators *)
      let gs := flat_map (fun n => match dec_node q n with Some g => [g] | None => [] end) nodes in
      VL (run_dkg_ops q (is1 fixed) gs ops)
  | _, _ => VErr
  end.
