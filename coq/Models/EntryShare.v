(* EntryShare.v -- wire-level entry points ([list val -> val]) of the Share model, instantiated
   with Z/qZ for the scalars and the discrete-log module for the commitments. *)
From Coq Require Import ZArith List Bool.
From DosVerif Require Import Base.Val Base.Field Models.Share.
Import ListNotations.
Local Open Scope Z_scope.

Definition zs (q : Z) (l : list val) : list (zq q) :=
  map (fun v => match v with VZ z => zq_of q z | VG _ z => zq_of q z | _ => zq_of q 0 end) l.

Definition unzs {q} (l : list (zq q)) : val := VL (map (fun x => VZ (zv x)) l).

Definition dec_share (q : Z) (v : val) : pshare (zq q) :=
  match v with
  | VL [VZ i; VZ x] => Some (i, Some (zq_of q x))
  | VL [VZ i; VG _ x] => Some (i, Some (zq_of q x))
  | VL [VZ i; VNone] => Some (i, None)
  | _ => None
  end.

Definition is1 (z : Z) : bool := z =? 1.

(* group id 2 = the suite's commitment group (bn256 G2 / Ed25519), 1 = bn256 G1 *)
Definition entry_share (op : Z) (args : list val) : val :=
  match op, args with
  | 1, [VZ q; VL p; VZ i] =>                       (* PriPoly.Eval *)
      VZ (zv (eval (zq_ops q) (zs q p) i))
  | 2, [VZ q; VZ d0; VL sh; VZ t; VZ n] =>         (* RecoverSecret *)
      res_val (fun x => VZ (zv x)) (recover_secret (zq_ops q) (is1 d0) (map (dec_share q) sh) t n)
  | 3, [VZ q; VL sh; VZ t; VZ n] =>                (* RecoverPriPoly *)
      res_val unzs (recover_pripoly (zq_ops q) (map (dec_share q) sh) t n)
  | 4, [VZ q; VZ d0; VZ g; VL sh; VZ t; VZ n] =>   (* RecoverCommit *)
      res_val (fun x => VG (Z.to_N g) (zv x))
              (recover_commit (zq_ops q) (exp_gops q) (is1 d0) (map (dec_share q) sh) t n)
  | 5, [VZ q; VZ g; VL p; VZ i] =>                 (* Commit(base).Eval(i); base has dlog 1 *)
      VG (Z.to_N g) (zv (pub_eval (zq_ops q) (exp_gops q)
                                  (commit (exp_gops q) (zq_of q 1) (zs q p)) i))
  | 6, [VZ q; VZ g; VL c; VZ i] =>                 (* PubPoly.Eval on arbitrary commitments *)
      VG (Z.to_N g) (zv (pub_eval (zq_ops q) (exp_gops q) (zs q c) i))
  | 7, [VZ q; VL c; VZ i; VZ v] =>                 (* PubPoly.Check *)
      vbool (check (zq_ops q) (exp_gops q) (zq_of q 1) (zs q c) i (zq_of q v))
  | 8, [VZ q; VL a; VL b] =>                       (* PriPoly.Add *)
      opt_val unzs (pri_add (zq_ops q) (zs q a) (zs q b))
  | 9, [VZ q; VZ g; VL a; VL b] =>                 (* PubPoly.Add *)
      opt_val (fun l => VL (map (fun x => VG (Z.to_N g) (zv x)) l))
              (pub_add (exp_gops q) (zs q a) (zs q b))
  | 10, [VZ q; VL a; VL b] =>                      (* PriPoly.Equal *)
      vbool (pri_equal (zq_ops q) (zs q a) (zs q b))
  | 11, [VZ q; VL a; VL b] =>                      (* PubPoly.Equal (repaired) *)
      vbool (pub_equal (exp_gops q) (zs q a) (zs q b))
  | 12, [VZ q; VL a; VL b] =>                      (* PubPoly.Equal (before the repair) *)
      res_val vbool (pub_equal_old (exp_gops q) (zs q a) (zs q b))
  | 13, [VZ q; VL a; VL b] =>                      (* PriPoly.Mul *)
      unzs (pmul (zq_ops q) (zs q a) (zs q b))
  | _, _ => VErr
  end.
