(* EntryAsm.v -- entry points that run the generated assembly programs (Gen/GfpAsm.v) on limbs. *)
From Coq Require Import ZArith List.
From DosVerif Require Import Base.Val Models.Asm Gen.GfpAsm.
Import ListNotations.
Local Open Scope Z_scope.

Definition asm_run (prog : list instr) (a b : Z) : val :=
  match run4 prog asm_p2 asm_np (limbs4 a) (limbs4 b) with
  | Some ws => VZ (lval ws)
  | None => VErr
  end.

Definition entry_asm (op : Z) (args : list val) : val :=
  match op, args with
  | 0, [VZ a; VZ b] => asm_run gfpAdd a b
  | 1, [VZ a; VZ b] => asm_run gfpSub a b
  | 2, [VZ a] => asm_run gfpNeg a 0
  | 3, [VZ a; VZ b] => asm_run gfpMul_nobmi2 a b
  | 4, [VZ a; VZ b] => asm_run gfpMul_bmi2 a b
  | _, _ => VErr
  end.
