(* Tbls.v -- model of /repo/sign/tbls/tbls.go and sign/bls/bls.go at the level of discrete
   logarithms: a G1/G2 element is represented by its logarithm to the fixed generator, so
   scalar multiplication is field multiplication and the pairing check
        e(-S, g2) * e(H(m), X) = 1        is        hm * x = s.
   The G1 wire decoder is a parameter [dec] (bytes -> logarithm, None = UnmarshalBinary fails);
   several byte strings may decode to one element (trailing bytes, unreduced coordinates).
   PairingCheck's "skip a pair with an identity member" is transparent here: such a pair
   contributes the factor 1. *)
From Coq Require Import ZArith List Bool.
From DosVerif Require Import Base.Val Base.Field Models.Share.
Import ListNotations.
Local Open Scope Z_scope.

(* the field as a module over itself *)
Definition self_gops {F} (O : Fops F) : Gops F F :=
  {| g0 := f0 O; gadd := fadd O; gneg := fopp O; gscale := fmul O; geqb := feqb O |}.

Section Tbls.
Context {F : Type}.
Variable O : Fops F.
Variable d0 : bool.
Variable dec : list N -> option F.

Notation M := (self_gops O).

(* SigShare.Index: binary.Read of a big-endian uint16 *)
Definition index (s : list N) : option Z :=
  match s with
  | a :: b :: _ => Some (Z.of_N a * 256 + Z.of_N b)
  | _ => None
  end.

(* SigShare.Value: s[2:] *)
Definition value (s : list N) : list N := skipn 2 s.

(* bls.Verify(X, msg, sig): X has logarithm x, H(msg) has logarithm hm *)
Definition bls_verify (x hm : F) (sig : list N) : bool :=
  match dec sig with
  | None => false
  | Some s => feqb O (fmul O hm x) s
  end.

(* tbls.Verify *)
Definition tbls_verify (pub : list F) (hm : F) (sig : list N) : res unit :=
  match index sig with
  | None => Err
  | Some i => if bls_verify (pub_eval O M pub i) hm (value sig) then Ok tt else Err
  end.

Definition bytes_eqb (a b : list N) : bool := list_eqb N.eqb a b.

(* sliceUniqMap: first occurrence of every distinct byte string, order kept *)
Fixpoint uniq_aux (seen : list (list N)) (l : list (list N)) : list (list N) :=
  match l with
  | [] => []
  | s :: rest => if existsb (bytes_eqb s) seen then uniq_aux seen rest
                 else s :: uniq_aux (s :: seen) rest
  end.
Definition uniq (l : list (list N)) : list (list N) := uniq_aux [] l.

Definition has_index (i : Z) (acc : list (Z * F)) : bool := existsb (fun e => fst e =? i) acc.

(* the loop of Recover as repaired: entries without an index, with an index >= n or already
   collected, and entries that do not verify are skipped; stop as soon as t are collected *)
Fixpoint collect (pub : list F) (hm : F) (sigs : list (list N)) (t : Z) (n : Z)
                 (acc : list (Z * F)) : list (Z * F) :=
  match sigs with
  | [] => acc
  | s :: rest =>
    match index s with
    | None => collect pub hm rest t n acc
    | Some i =>
      if (n <=? i) || has_index i acc then collect pub hm rest t n acc
      else if bls_verify (pub_eval O M pub i) hm (value s) then
        match dec (value s) with
        | None => collect pub hm rest t n acc     (* unreachable: verify decoded it *)
        | Some v =>
          let acc' := acc ++ [(i, v)] in
          if t <=? Z.of_nat (length acc') then acc' else collect pub hm rest t n acc'
        end
      else collect pub hm rest t n acc
    end
  end.

Definition to_pshares (acc : list (Z * F)) : list (pshare F) :=
  map (fun e => Some (fst e, Some (snd e))) acc.

Definition recover (pub : list F) (hm : F) (sigs : list (list N)) (t n : Z) : res F :=
  recover_commit O M d0 (to_pshares (collect pub hm (uniq sigs) t n [])) t n.

(* The loop as it was before the repair: an entry without an index aborts the call, nothing
   prevents an index from being collected twice or from lying outside [0,n). *)
Fixpoint collect_old (pub : list F) (hm : F) (sigs : list (list N)) (t : Z)
                     (acc : list (Z * F)) : res (list (Z * F)) :=
  match sigs with
  | [] => Ok acc
  | s :: rest =>
    match index s with
    | None => Err
    | Some i =>
      if bls_verify (pub_eval O M pub i) hm (value s) then
        match dec (value s) with
        | None => Err
        | Some v =>
          let acc' := acc ++ [(i, v)] in
          if t <=? Z.of_nat (length acc') then Ok acc' else collect_old pub hm rest t acc'
        end
      else collect_old pub hm rest t acc
    end
  end.

Definition recover_old (pub : list F) (hm : F) (sigs : list (list N)) (t n : Z) : res F :=
  res_bind (collect_old pub hm (uniq sigs) t []) (fun acc =>
  recover_commit O M d0 (to_pshares acc) t n).

(* tbls.Sign: 2-byte big-endian index, then the BLS signature x_i * H(m) *)
Definition sign_parts (i : Z) (xi hm : F) : list N * F :=
  ([Z.to_N ((i / 256) mod 256); Z.to_N (i mod 256)], fmul O xi hm).

End Tbls.
