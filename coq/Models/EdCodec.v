(* EdCodec.v -- extendedGroupElement.FromBytes (/repo/group/edwards25519/ge.go): 32 bytes; y is the
   little-endian value of the low 255 bits (feFromBytes drops the top bit; values p..2^255-1 are
   taken as their residues); u = y^2 - 1, v = d y^2 + 1; the candidate root
   x = u v^3 (u v^7)^((p-5)/8); if v x^2 = u keep it, else if v x^2 = -u multiply by sqrt(-1), else
   refuse; then give x the parity the top bit announces; Z = 1, T = x y. *)
From Coq Require Import ZArith NArith List Bool.
From DosVerif Require Import Base.Val Base.Field Gen.EdConsts Models.Ed.
Import ListNotations.

Section Decode.
Context {K : Type}.
Variable O : Fops K.
Variable d sqrtm1 : K.
Variable parity : K -> bool.          (* feIsNegative: the low bit of the canonical residue *)
Notation "a +k b" := (fadd O a b) (at level 50, left associativity).
Notation "a -k b" := (fsub O a b) (at level 50, left associativity).
Notation "a *k b" := (fmul O a b) (at level 40, left associativity).

Fixpoint kpow (x : K) (e : positive) : K :=
  match e with
  | xH => x
  | xO e' => let y := kpow x e' in y *k y
  | xI e' => let y := kpow x e' in y *k y *k x
  end.

(* the point for ordinate y and announced parity [neg]; e is the exponent (p-5)/8 *)
Definition decode_y (e : positive) (y : K) (neg : bool) : option (ext (K:=K)) :=
  let one := f1 O in
  let u := (y *k y) -k one in
  let v := (y *k y *k d) +k one in
  let v3 := v *k v *k v in
  let x := (v3 *k v3) *k v *k u in           (* u v^7 *)
  let x := kpow x e in
  let x := x *k v3 *k u in
  let vxx := x *k x *k v in
  let ox :=
    if feqb O (vxx -k u) (f0 O) then Some x
    else if feqb O (vxx +k u) (f0 O) then Some (x *k sqrtm1)
    else None in
  match ox with
  | None => None
  | Some x =>
      let x := if Bool.eqb (parity x) neg then x else fopp O x in
      Some (mkext x y one (x *k y))
  end.

End Decode.

(* ---------------------------------------------------------------- the instance *)

Definition le_val (l : list N) : Z := fold_right (fun b acc => (Z.of_N b + 256 * acc)%Z) 0%Z l.

Definition fe_parity (x : Fe) : bool := Z.odd (zv x).

Definition ed_exp : positive := Z.to_pos ((src_ed_p - 5) / 8).

Definition ed_decode (s : list N) : option (ext (K:=Fe)) :=
  if negb (Nat.eqb (length s) 32) then None
  else
    let n := le_val s in
    decode_y fe_ops ed_d ed_sqrtm1 fe_parity ed_exp (fe_of (n mod 2 ^ 255)) (Z.odd (n / 2 ^ 255)).

(* decode, then encode what was decoded *)
Definition entry_edcodec (op : Z) (args : list val) : val :=
  match op, args with
  | 1%Z, [VB s] => match ed_decode s with Some p => VB (ed_encode p) | None => VErr end
  | _, _ => VErr
  end.
