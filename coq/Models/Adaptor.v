(* Adaptor.v -- the life of one ethAdaptor (/repo/onchain): a history of state-changing calls taken
   from the request queue ONE AT A TIME by ReqLoop (eth_set.go: handleReq runs to completion before
   the next request is dequeued) and of reads through get (eth_get.go), over the same per-endpoint
   contexts.  An endpoint's context is cancelled - the endpoint is switched off for good - only
   by: a write that failed to retrieve the nonce / hit a closed connection at it, or a read whose
   error at it says "use of closed network connection".
   The account on the chain: the next nonce; an endpoint answers the nonce question with the state at
   the time of the question, accepts the transaction carrying exactly the next nonce. *)
From Coq Require Import ZArith NArith List Bool Lia.
From DosVerif Require Import Base.Val Models.Abi.
Import ListNotations.
Open Scope Z_scope.

Inductive rout : Type :=
| RVal                     (* the endpoint answers the getter *)
| ROtherErr                (* any other error ("header not found", "execution reverted", ...) *)
| RClosed.                 (* "use of closed network connection" *)

Inductive hev : Type :=
| HRead (rs : list rout)            (* one getter; per endpoint what it answers *)
| HWrite (os : list outcome)        (* one state-changing call; per endpoint what it would answer *)
| HBatch (k : nat)                  (* k state-changing calls queued at the same moment, every endpoint accepting *)
| HReconnect.                       (* DisconnectAll, then Connect: fresh contexts for every endpoint, one request loop *)

Record hst : Type := mkh { h_alive : list bool; h_nonce : Z }.

Inductive hout : Type :=
| OutRead (served : bool)
| OutWrite (sent_to : list nat) (res : option outcome) (nonce : option Z)   (* nonce of the accepted transaction *)
| OutBatch (nonces : list Z)
| OutReconnect.

Fixpoint kill (dead : list nat) (i : nat) (alive : list bool) : list bool :=
  match alive with
  | [] => []
  | a :: rest => (a && negb (existsb (Nat.eqb i) dead)) :: kill dead (S i) rest
  end.

Fixpoint closed_at (i : nat) (alive : list bool) (rs : list rout) : list nat :=
  match alive, rs with
  | a :: al, r :: rl => (if a && match r with RClosed => true | _ => false end then [i] else []) ++ closed_at (S i) al rl
  | _, _ => []
  end.

Fixpoint served_by (alive : list bool) (rs : list rout) : bool :=
  match alive, rs with
  | a :: al, r :: rl => (a && match r with RVal => true | _ => false end) || served_by al rl
  | _, _ => false
  end.

Definition write1 (s : hst) (os : list outcome) : hst * hout :=
  let f := handle_req (combine (h_alive s) os) in
  let acc := match result f with Some OAccept => true | _ => false end in
  (mkh (kill (cancelled f) 0 (h_alive s)) (if acc then h_nonce s + 1 else h_nonce s),
   OutWrite (sent f) (result f) (if acc then Some (h_nonce s) else None)).

Fixpoint batch (k : nat) (s : hst) : hst * list Z :=
  match k with
  | O => (s, [])
  | S k' =>
      let '(s1, o) := write1 s (map (fun _ => OAccept) (h_alive s)) in
      let '(s2, ns) := batch k' s1 in
      (s2, match o with OutWrite _ _ (Some n) => n :: ns | _ => ns end)
  end.

Definition hstep (s : hst) (e : hev) : hst * hout :=
  match e with
  | HRead rs => (mkh (kill (closed_at 0 (h_alive s) rs) 0 (h_alive s)) (h_nonce s), OutRead (served_by (h_alive s) rs))
  | HWrite os => write1 s os
  | HBatch k => let '(s', ns) := batch k s in (s', OutBatch ns)
  | HReconnect => (mkh (map (fun _ => true) (h_alive s)) (h_nonce s), OutReconnect)
  end.

Fixpoint hrun (s : hst) (es : list hev) : hst * list hout :=
  match es with
  | [] => (s, [])
  | e :: es' => let '(s1, o) := hstep s e in let '(s2, os) := hrun s1 es' in (s2, o :: os)
  end.

Definition h0 (n : nat) (nonce : Z) : hst := mkh (repeat true n) nonce.

(* ---------------------------------------------------------------- entry point *)

Definition rout_of (z : Z) : rout := if z =? 0 then RVal else if z =? 2 then RClosed else ROtherErr.

Definition dec_hev (v : val) : hev :=
  match v with
  | VL [VZ 0; VL rs] => HRead (map (fun r => match r with VZ z => rout_of z | _ => ROtherErr end) rs)
  | VL [VZ 1; VL os] => HWrite (map (fun o => match o with VZ z => outcome_of z | _ => OOther end) os)
  | VL [VZ 2; VZ k] => HBatch (Z.to_nat k)
  | VL [VZ 3] => HReconnect
  | _ => HBatch 0
  end.

Definition enc_hout (o : hout) : val :=
  match o with
  | OutRead b => VL [VZ 0; VZ (if b then 1 else 0)]
  | OutWrite st r n =>
      VL [VZ 1; natl st; match r with Some x => VZ (outcome_z x) | None => VNone end;
          match n with Some z => VZ z | None => VNone end]
  | OutBatch ns => VL [VZ 2; VL (map VZ ns)]
  | OutReconnect => VL [VZ 3]
  end.

Definition entry_adaptor (op : Z) (args : list val) : val :=
  match op, args with
  | 1, [VZ n; VZ nonce; VL evs] =>
      VL (map enc_hout (snd (hrun (h0 (Z.to_nat n) nonce) (map dec_hev evs))))
  | _, _ => VErr
  end.
