(* Abi.v -- the calldata of the node's state-changing calls (onchain/eth_set.go through the
   generated bindings), and the endpoint fail-over of ethAdaptor.handleReq.

   Contract ABI encoding of an argument list over the types that occur: uint256 / uint8 / bytes32
   (one 32-byte word), uint256[k] (k words inline), bytes (offset word in the head, length word
   and right-padded data in the tail).  [decode] is what the contract does with it. *)
From Coq Require Import ZArith NArith List Bool Lia.
From DosVerif Require Import Base.Val Models.Bn.
Import ListNotations.
Open Scope Z_scope.

Inductive aty : Type := TWord | TBytes | TFixed (n : nat).
Inductive arg : Type := AWord (z : Z) | ABytes (b : list N) | AFixed (ws : list Z).

Definition ty_of (a : arg) : aty :=
  match a with AWord _ => TWord | ABytes _ => TBytes | AFixed ws => TFixed (length ws) end.

Definition word (z : Z) : list N := be_bytes 32 z.

Definition pad_len (n : nat) : nat := ((32 - n mod 32) mod 32)%nat.
Definition pad32 (b : list N) : list N := b ++ repeat 0%N (pad_len (length b)).

Definition head_len (a : arg) : Z :=
  match a with AWord _ => 32 | ABytes _ => 32 | AFixed ws => 32 * Z.of_nat (length ws) end.

Definition tail_of (a : arg) : list N :=
  match a with ABytes b => word (Z.of_nat (length b)) ++ pad32 b | _ => [] end.

(* heads and tails; [off]: where the next tail will start, counted from the start of the arguments *)
Fixpoint enc_go (args : list arg) (off : Z) : list N * list N :=
  match args with
  | [] => ([], [])
  | a :: r =>
      let ht := enc_go r (off + Z.of_nat (length (tail_of a))) in
      match a with
      | AWord z => (word z ++ fst ht, snd ht)
      | AFixed ws => (flat_map word ws ++ fst ht, snd ht)
      | ABytes b => (word off ++ fst ht, tail_of a ++ snd ht)
      end
  end.

Definition heads_len (args : list arg) : Z := fold_right (fun a s => head_len a + s) 0 args.

Definition encode_args (args : list arg) : list N :=
  let ht := enc_go args (heads_len args) in fst ht ++ snd ht.

Definition calldata (sel : list N) (args : list arg) : list N := sel ++ encode_args args.

Fixpoint words_of (n : nat) (bs : list N) : list Z :=
  match n with O => [] | S n' => be_val (firstn 32 bs) :: words_of n' (skipn 32 bs) end.

(* [heads]: the rest of the head area; [whole]: all argument bytes (offsets count from its start) *)
Fixpoint dec_go (tys : list aty) (heads whole : list N) : list arg :=
  match tys with
  | [] => []
  | TWord :: r => AWord (be_val (firstn 32 heads)) :: dec_go r (skipn 32 heads) whole
  | TFixed n :: r => AFixed (words_of n heads) :: dec_go r (skipn (32 * n) heads) whole
  | TBytes :: r =>
      let off := Z.to_nat (be_val (firstn 32 heads)) in
      let len := Z.to_nat (be_val (firstn 32 (skipn off whole))) in
      ABytes (firstn len (skipn (off + 32) whole)) :: dec_go r (skipn 32 heads) whole
  end.

Definition decode_args (tys : list aty) (data : list N) : list arg := dec_go tys data data.

(* ---------------------------------------------------------------- the calls of eth_set.go *)

(* vss.Signature.ToBigInt: x = first 32 bytes, y = the rest, both big-endian *)
Definition to_big_int (sig : list N) : Z * Z := (be_val (firstn 32 sig), be_val (skipn 32 sig)).

Definition update_randomness_args (sig : list N) : list arg :=
  let xy := to_big_int sig in [AFixed [fst xy; snd xy]].

(* DataReturn: requestId = big-endian value of the request id bytes, trafficType = uint8(Index) *)
Definition trigger_callback_args (request_id : list N) (index : Z) (content sig : list N) : list arg :=
  let xy := to_big_int sig in
  [AWord (be_val request_id); AWord (index mod 256); ABytes content; AFixed [fst xy; snd xy]].

Definition register_group_args (id_pub : list Z) : list arg :=
  [AWord (hd 0 id_pub); AFixed (firstn 4 (tl id_pub))].

Definition commit_args (cid : Z) (commitment : list N) : list arg := [AWord cid; AWord (be_val commitment)].
Definition reveal_args (cid secret : Z) : list arg := [AWord cid; AWord secret].

(* ---------------------------------------------------------------- fail-over *)

Inductive outcome : Type :=
| OAccept                   (* the endpoint took the transaction *)
| ORevert                   (* error text contains "transaction failed" *)
| OFunds                    (* "insufficient funds for gas * price + value" *)
| ONonce                    (* "failed to retrieve account nonce": nothing was sent *)
| OClosed                   (* "use of closed network connection": nothing was sent *)
| ORefused                  (* the endpoint cannot be reached: nothing was sent *)
| OOther.                   (* any other error answer to the submitted transaction *)

Definition reaches_node (o : outcome) : bool :=
  match o with OAccept | ORevert | OFunds | OOther => true | _ => false end.

Definition final (o : outcome) : bool := match o with OAccept | ORevert | OFunds => true | _ => false end.
Definition cancels (o : outcome) : bool := match o with ONonce | OClosed => true | _ => false end.

Record fo : Type := mkfo {
  sent : list nat;            (* endpoints that received the transaction *)
  result : option outcome;    (* what the caller gets: the last attempt (None: no endpoint was tried) *)
  cancelled : list nat        (* endpoints switched off *)
}.

(* handleReq: the endpoints in order; [alive i] = its context is not done yet *)
Fixpoint handle (i : nat) (eps : list (bool * outcome)) (acc : fo) : fo :=
  match eps with
  | [] => acc
  | (alive, o) :: rest =>
      if negb alive then handle (S i) rest acc
      else
        let acc' := mkfo (if reaches_node o then sent acc ++ [i] else sent acc) (Some o)
                         (if cancels o then cancelled acc ++ [i] else cancelled acc) in
        if final o then acc' else handle (S i) rest acc'
  end.

Definition handle_req (eps : list (bool * outcome)) : fo := handle 0 eps (mkfo [] None []).

(* ---------------------------------------------------------------- entry point *)

Definition val_arg (v : val) : arg :=
  match v with
  | VL [VZ 0; VZ z] => AWord z
  | VL [VZ 1; VB b] => ABytes b
  | VL [VZ 2; VL ws] => AFixed (map (fun w => match w with VZ z => z | _ => 0 end) ws)
  | _ => AWord 0
  end.

Definition outcome_of (z : Z) : outcome :=
  if z =? 0 then OAccept else if z =? 1 then ORevert else if z =? 2 then OFunds
  else if z =? 3 then ONonce else if z =? 4 then OClosed else if z =? 5 then ORefused else OOther.

Definition outcome_z (o : outcome) : Z :=
  match o with OAccept => 0 | ORevert => 1 | OFunds => 2 | ONonce => 3 | OClosed => 4 | ORefused => 5 | OOther => 6 end.

Definition natl (l : list nat) : val := VL (map (fun n => VZ (Z.of_nat n)) l).

Definition entry_abi (op : Z) (args : list val) : val :=
  match op, args with
  | 1, [VB sel; VL a] => VB (calldata sel (map val_arg a))
  | 2, [VB sel; VB sig] => VB (calldata sel (update_randomness_args sig))
  | 3, [VB sel; VB rid; VZ idx; VB content; VB sig] => VB (calldata sel (trigger_callback_args rid idx content sig))
  | 4, [VB sel; VL ws] => VB (calldata sel (register_group_args (map (fun w => match w with VZ z => z | _ => 0 end) ws)))
  | 5, [VB sel; VZ cid; VB c] => VB (calldata sel (commit_args cid c))
  | 6, [VB sel; VZ cid; VZ s] => VB (calldata sel (reveal_args cid s))
  | 7, [VL eps] =>
      let r := handle_req (map (fun e => match e with VL [VZ a; VZ o] => (negb (a =? 0), outcome_of o) | _ => (false, OOther) end) eps) in
      VL [natl (sent r); match result r with Some o => VZ (outcome_z o) | None => VNone end; natl (cancelled r)]
  | _, _ => VErr
  end.
