(* Vss.v -- model of /repo/share/vss/pedersen/vss.go (verifier side) with symbolic cryptography.
   Long-term and ephemeral keys are numbers (a public key and its secret key share one id);
   commitments are discrete logarithms (module = the field itself, base 1); a session id is the
   TERM that is hashed, so two ids are equal exactly when their inputs are (collision freeness);
   a Schnorr signature is described by (signing key, id of the signed byte string); an AEAD
   ciphertext by the key material, nonce and additional data it was sealed under plus a flag
   saying whether its bytes are intact.  The harness builds every real message together with this
   description. *)
From Coq Require Import ZArith List Bool.
From DosVerif Require Import Base.Val Base.Field Models.Share Models.Tbls.
Import ListNotations.
Local Open Scope Z_scope.

Section Vss.
Context {F : Type}.
Variable O : Fops F.
Notation M := (self_gops O).
(* true: the code as repaired (fix: commits); false: as it was pinned *)
Variable fixed : bool.

Inductive sid : Type :=
| Sid (dealer : Z) (members : list Z) (commits : list F) (t : Z)
| SidJunk (k : Z).

Fixpoint zlist_eqb (a b : list Z) : bool :=
  match a, b with
  | [], [] => true
  | x :: a', y :: b' => (x =? y) && zlist_eqb a' b'
  | _, _ => false
  end.

Definition sid_eqb (a b : sid) : bool :=
  match a, b with
  | Sid d m c t, Sid d' m' c' t' => (d =? d') && zlist_eqb m m' && list_eqb (feqb O) c c' && (t =? t')
  | SidJunk k, SidJunk k' => k =? k'
  | _, _ => false
  end.

(* the plaintext deal; sec = None models a nil SecShare *)
Record plain : Type := mkplain {
  p_sid : sid; p_sec : option (Z * F); p_t : Z; p_commits : list F }.

Record edeal : Type := mkedeal {
  e_sig_key : Z;          (* whose signature the Signature field is (-1: nobody's) *)
  e_sig_bytes : Z;        (* id of the byte string that signature covers *)
  e_dh_bytes : Z;         (* id of the DHKey byte string *)
  e_dh_point : option Z;  (* the ephemeral key DHKey decodes to *)
  e_nonce_len : Z;
  e_nonce : Z;            (* id of the nonce bytes *)
  e_seal_eph : Z; e_seal_rcpt : Z; e_seal_dealer : Z; e_seal_members : list Z; e_seal_nonce : Z;
  e_intact : bool;        (* Cipher is byte-for-byte what Seal produced *)
  e_plain : option plain  (* the sealed plaintext, None if it does not decode as a deal *)
}.

Inductive status := Approval | Complaint.

Record response : Type := mkresp {
  r_sid : sid; r_index : Z; r_status : status;
  r_sig_key : Z           (* key whose signature over (sid, index, status) the response carries *)
}.

Record agg : Type := mkagg {
  a_sid : sid; a_commits : list F; a_t : Z; a_deal : option plain;
  a_resps : list (Z * status); a_bad : bool }.

Record verifier : Type := mkver {
  v_key : Z; v_dealer : Z; v_index : Z; v_members : list Z; v_agg : option agg }.

Definition nmembers (v : verifier) : Z := Z.of_nat (length (v_members v)).

(* validT: 2 <= t <= n (and t fits uint32, which a decoded uint32 always does) *)
Definition valid_t (t n : Z) : bool := (2 <=? t) && (t <=? n).

(* decryptDeal; None for a nil *EncryptedDeal *)
Definition decrypt_deal (v : verifier) (eo : option edeal) : res plain :=
  match eo with
  | None => if fixed then Err else Panic
  | Some e =>
    if negb ((e_sig_key e =? v_dealer v) && (e_sig_bytes e =? e_dh_bytes e)) then Err
    else match e_dh_point e with
         | None => Err
         | Some eph =>
           if negb (e_nonce_len e =? 12) then (if fixed then Err else Panic)   (* cipher.AEAD.Open panics *)
           else if e_intact e && (e_seal_eph e =? eph) && (e_seal_rcpt e =? v_key v)
                   && (e_seal_dealer e =? v_dealer v) && zlist_eqb (e_seal_members e) (v_members v)
                   && (e_seal_nonce e =? e_nonce e)
           then match e_plain e with Some p => Ok p | None => Err end
           else Err
         end
  end.

Definition lookup_resp (i : Z) (l : list (Z * status)) : option status :=
  match find (fun kv => fst kv =? i) l with Some kv => Some (snd kv) | None => None end.

(* addResponse *)
Definition add_response (a : agg) (n : Z) (i : Z) (s : status) : option agg :=
  if (i <? 0) || (n <=? i) then None
  else match lookup_resp i (a_resps a) with
       | Some _ => None
       | None => Some (mkagg (a_sid a) (a_commits a) (a_t a) (a_deal a) (a_resps a ++ [(i, s)]) (a_bad a))
       end.

(* the checks of VerifyDeal after the deal was recorded *)
Definition deal_ok (n : Z) (p : plain) (i : Z) (x : F) : bool :=
  valid_t (p_t p) n && (0 <=? i) && (i <? n) && check O M (f1 O) (p_commits p) i x.

(* ProcessEncryptedDeal: new verifier state and the response *)
Definition process_encrypted_deal (v : verifier) (eo : option edeal) : res (verifier * response) :=
  res_bind (decrypt_deal v eo) (fun p =>
  match p_sec p with
  | None => if fixed then Err else Panic
  | Some (i, x) =>
    if negb (i =? v_index v) then Err
    else
      let n := nmembers v in
      let computed := Sid (v_dealer v) (v_members v) (p_commits p) (p_t p) in
      (* repaired code: VerifyDeal recomputes the session id; a mismatch is a complaint *)
      let sid_ok := if fixed then sid_eqb computed (p_sid p) else true in
        let a := match v_agg v with
                 | Some a => a
                 | None => mkagg (p_sid p) (p_commits p) (p_t p) None [] false
                 end in
        match a_deal a with
        | Some _ => Err      (* errDealAlreadyProcessed *)
        | None =>
          let a1 := mkagg (p_sid p) (p_commits p) (a_t a) (Some p) (a_resps a) (a_bad a) in
          let st := if deal_ok n p i x && sid_ok then Approval else Complaint in
          match add_response a1 n (v_index v) st with
          | None => Err
          | Some a2 =>
            Ok (mkver (v_key v) (v_dealer v) (v_index v) (v_members v) (Some a2),
                mkresp computed (v_index v) st (v_key v))
          end
        end
  end).

Definition nth_key (l : list Z) (i : Z) : option Z :=
  if (i <? 0) then None else nth_error l (Z.to_nat i).

(* Verifier.ProcessResponse -> aggregator.verifyResponse; None models a nil *Response *)
Definition process_response (v : verifier) (ro : option response) : res verifier :=
  match v_agg v with
  | None => Err
  | Some a =>
    match ro with
    | None => if fixed then Err else Panic
    | Some r =>
      if negb (sid_eqb (r_sid r) (a_sid a)) then Err
      else match nth_key (v_members v) (r_index r) with
           | None => Err
           | Some k =>
             if negb (r_sig_key r =? k) then Err
             else match add_response a (nmembers v) (r_index r) (r_status r) with
                  | None => Err
                  | Some a' => Ok (mkver (v_key v) (v_dealer v) (v_index v) (v_members v) (Some a'))
                  end
           end
    end
  end.

(* UnsafeSetResponseDKG: the dealer's own approval is inserted without checks; an existing
   entry stays *)
Definition unsafe_set (v : verifier) (i : Z) : verifier :=
  match v_agg v with
  | None => v
  | Some a => match add_response a (nmembers v) i Approval with
              | Some a' => mkver (v_key v) (v_dealer v) (v_index v) (v_members v) (Some a')
              | None => v
              end
  end.

(* EnoughApprovals / DealCertified *)
Definition approvals (a : agg) : Z :=
  Z.of_nat (length (filter (fun kv => match snd kv with Approval => true | Complaint => false end) (a_resps a))).

Definition all_present (a : agg) (n : Z) : bool :=
  forallb (fun i => match lookup_resp (Z.of_nat i) (a_resps a) with Some _ => true | None => false end)
          (seq 0 (Z.to_nat n)).

Definition deal_certified (v : verifier) : bool :=
  match v_agg v with
  | None => false
  | Some a => (a_t a <=? approvals a) && all_present a (nmembers v) && negb (a_bad a)
  end.

End Vss.
