(* Models/Asm.v -- the fragment of amd64 (Go assembler syntax) used by group/bn256/gfp.s:
   straight-line 64-bit integer code over sixteen registers, the carry flag, and word-addressed
   memory regions (the operands a, b, the result c, the stack frame, the constant tables p2 / np).
   The programs themselves are generated from the assembly source on every run (translator T1,
   Gen/GfpAsm.v); this file is their semantics.  A read of a location that was never written is
   an error (None), not a default value. *)
From Coq Require Import ZArith List Bool.
Import ListNotations.
Open Scope Z_scope.

Inductive reg := AX | BX | CX | DX | SI | DI | R8 | R9 | R10 | R11 | R12 | R13 | R14 | R15.
Inductive region := RA | RB | RC | STK | P2 | NP.
Inductive loc := Lr (r : reg) | Lm (g : region) (off : N).      (* off in bytes, a multiple of 8 *)
Inductive opnd := Imm (z : Z) | Loc (l : loc).

Inductive instr :=
| MOVQ (s : opnd) (d : loc)
| ADDQ (s : opnd) (d : loc)
| ADCQ (s : opnd) (d : loc)
| SUBQ (s : opnd) (d : loc)
| SBBQ (s : opnd) (d : loc)
| MULQ (s : opnd)                       (* DX:AX := AX * s ; CF := (DX <> 0) *)
| MULXQ (s : opnd) (lo hi : loc)        (* hi:lo := DX * s ; flags untouched *)
| CMOVQCC (s : opnd) (d : loc).         (* if CF = 0 then d := s *)

Definition W : Z := 18446744073709551616.          (* 2^64 *)
Definition lo64 (x : Z) : Z := x mod W.
Definition hi64 (x : Z) : Z := x / W.
Definition nz (x : Z) : Z := if x =? 0 then 0 else 1.
Definition sel (c x y : Z) : Z := if c =? 0 then x else y.

Definition reg_code (r : reg) : N :=
  match r with AX => 0 | BX => 1 | CX => 2 | DX => 3 | SI => 4 | DI => 5 | R8 => 6 | R9 => 7
  | R10 => 8 | R11 => 9 | R12 => 10 | R13 => 11 | R14 => 12 | R15 => 13 end%N.
Definition region_code (g : region) : N :=
  match g with RA => 0 | RB => 1 | RC => 2 | STK => 3 | P2 => 4 | NP => 5 end%N.
Definition loc_eqb (a b : loc) : bool :=
  match a, b with
  | Lr x, Lr y => N.eqb (reg_code x) (reg_code y)
  | Lm g o, Lm h p => N.eqb (region_code g) (region_code h) && N.eqb o p
  | _, _ => false
  end.

Definition env := list (loc * Z).
Record mstate := MS { cf : Z; mem : env }.

Fixpoint get (l : loc) (e : env) : option Z :=
  match e with
  | [] => None
  | (k, v) :: e' => if loc_eqb l k then Some v else get l e'
  end.
Fixpoint put (l : loc) (v : Z) (e : env) : env :=
  match e with
  | [] => [(l, v)]
  | (k, w) :: e' => if loc_eqb l k then (k, v) :: e' else (k, w) :: put l v e'
  end.

Definition rd (o : opnd) (e : env) : option Z :=
  match o with Imm z => Some z | Loc l => get l e end.

Definition step (i : instr) (s : mstate) : option mstate :=
  let e := mem s in
  match i with
  | MOVQ o d => match rd o e with Some x => Some (MS (cf s) (put d x e)) | None => None end
  | ADDQ o d => match rd o e, get d e with
                | Some x, Some y => Some (MS (hi64 (y + x)) (put d (lo64 (y + x)) e))
                | _, _ => None end
  | ADCQ o d => match rd o e, get d e with
                | Some x, Some y => Some (MS (hi64 (y + x + cf s)) (put d (lo64 (y + x + cf s)) e))
                | _, _ => None end
  | SUBQ o d => match rd o e, get d e with
                | Some x, Some y => Some (MS (- hi64 (y - x)) (put d (lo64 (y - x)) e))
                | _, _ => None end
  | SBBQ o d => match rd o e, get d e with
                | Some x, Some y => Some (MS (- hi64 (y - x - cf s)) (put d (lo64 (y - x - cf s)) e))
                | _, _ => None end
  | MULQ o => match rd o e, get (Lr AX) e with
              | Some x, Some y =>
                  Some (MS (nz (hi64 (y * x))) (put (Lr DX) (hi64 (y * x)) (put (Lr AX) (lo64 (y * x)) e)))
              | _, _ => None end
  | MULXQ o lo hi => match rd o e, get (Lr DX) e with
              | Some x, Some y =>
                  (* with lo = hi the register holds the high half (Intel SDM, MULX) *)
                  Some (MS (cf s) (put hi (hi64 (y * x)) (put lo (lo64 (y * x)) e)))
              | _, _ => None end
  | CMOVQCC o d => match rd o e, get d e with
                | Some x, Some y => Some (MS (cf s) (put d (sel (cf s) x y) e))
                | _, _ => None end
  end.

Fixpoint exec (p : list instr) (s : mstate) : option mstate :=
  match p with
  | [] => Some s
  | i :: k => match step i s with Some s' => exec k s' | None => None end
  end.

(* little-endian multi-limb values *)
Fixpoint lval (ws : list Z) : Z :=
  match ws with [] => 0 | w :: r => w + W * lval r end.

Definition limbs4 (x : Z) : list Z :=
  [x mod W; (x / W) mod W; (x / (W*W)) mod W; (x / (W*W*W)) mod W].

Definition block (g : region) (ws : list Z) : env :=
  (fix go (o : N) (ws : list Z) : env :=
     match ws with [] => [] | w :: r => (Lm g o, w) :: go (o + 8)%N r end) 0%N ws.

(* the state a gfp routine starts in: operands, constant tables, flag clear, nothing else *)
Definition init_state (p2 np a b : list Z) : mstate :=
  MS 0 (block RA a ++ block RB b ++ block P2 p2 ++ block NP np).

Definition result4 (s : mstate) : option (list Z) :=
  match get (Lm RC 0) (mem s), get (Lm RC 8) (mem s), get (Lm RC 16) (mem s), get (Lm RC 24) (mem s) with
  | Some w0, Some w1, Some w2, Some w3 => Some [w0; w1; w2; w3]
  | _, _, _, _ => None
  end.

Definition run4 (prog : list instr) (p2 np a b : list Z) : option (list Z) :=
  match exec prog (init_state p2 np a b) with Some s => result4 s | None => None end.

(* ---- aliasing discipline: the Go callers pass c = a and c = b freely.  A routine is alias-safe
   when it never writes the operand or constant regions and reads no operand word after its first
   store to the result: its result is then the same function of the operand values whether or
   not c overlaps a or b. *)
Definition reads_of (i : instr) : list opnd :=
  match i with
  | MOVQ s _ => [s] | ADDQ s d | ADCQ s d | SUBQ s d | SBBQ s d | CMOVQCC s d => [s; Loc d]
  | MULQ s => [s] | MULXQ s _ _ => [s]
  end.
Definition writes_of (i : instr) : list loc :=
  match i with
  | MOVQ _ d | ADDQ _ d | ADCQ _ d | SUBQ _ d | SBBQ _ d | CMOVQCC _ d => [d]
  | MULQ _ => [Lr AX; Lr DX] | MULXQ _ lo hi => [lo; hi]
  end.
Definition in_region (g : region) (l : loc) : bool :=
  match l with Lm h _ => N.eqb (region_code g) (region_code h) | Lr _ => false end.
Definition opnd_in (g : region) (o : opnd) : bool :=
  match o with Loc l => in_region g l | Imm _ => false end.
Fixpoint alias_safe_from (stored : bool) (p : list instr) : bool :=
  match p with
  | [] => true
  | i :: k =>
      let w := writes_of i in
      negb (existsb (fun l => in_region RA l || in_region RB l || in_region P2 l || in_region NP l) w)
      && negb (existsb (fun o => opnd_in RC o) (reads_of i))
      && (negb stored || negb (existsb (fun o => opnd_in RA o || opnd_in RB o) (reads_of i)))
      && alias_safe_from (stored || existsb (in_region RC) w) k
  end.
Definition alias_safe (p : list instr) : bool := alias_safe_from false p.

(* ---- wire-level entry point: op 0 add, 1 sub, 2 neg, 3 mul (MULQ path), 4 mul (MULX path);
   the programs are passed in by Models/EntryAsm.v (generated code is not imported here) *)
