(* FirstEvent.v -- onchain/eth_subscribe.go: firstEvent over the merged stream of all websocket
   endpoints, and the static shape of the per-event translation blocks (Gen/EventTable.v).

   A log as the watcher hands it on: the raw data bytes, the block number, the removed flag, and
   the translated node event (an identifier here; field fidelity is the table check below and the
   harness' ABI decoding).  identity = sha256(data ++ minimal big-endian block number): the model
   keeps the hashed bytes (collision freedom of SHA-256 is the hypothesis). *)
From Coq Require Import ZArith NArith List Bool String Lia.
From DosVerif Require Import Base.Val Models.Stages.
Import ListNotations.

Record elog : Type := mkelog { l_data : list N; l_block : N; l_removed : bool; l_event : Z }.

Definition ident (l : elog) : list N := l_data l ++ be_min (l_block l).

Fixpoint bytes_eq (a b : list N) : bool :=
  match a, b with
  | [], [] => true
  | x :: a', y :: b' => N.eqb x y && bytes_eq a' b'
  | _, _ => false
  end.

Definition seen (visited : list (list N)) (i : list N) : bool := existsb (bytes_eq i) visited.

(* the loop of firstEvent, within the de-duplication window: removed logs are skipped, the first
   occurrence of an identity is delivered and remembered *)
Fixpoint first_event (visited : list (list N)) (stream : list elog) : list elog :=
  match stream with
  | [] => []
  | l :: rest =>
      if l_removed l then first_event visited rest
      else if seen visited (ident l) then first_event visited rest
      else l :: first_event (ident l :: visited) rest
  end.

(* ---------------------------------------------------------------- the translation table *)

Open Scope string_scope.

Definition canonical_common : list (string * string) :=
  [("Tx", "i.Raw.TxHash.Hex()"); ("BlockN", "i.Raw.BlockNumber"); ("Removed", "i.Raw.Removed"); ("Raw", "i.Raw"); ("log", "l")].

Definition str_in (s : string) (l : list string) : bool := existsb (String.eqb s) l.

Definition pair_eqb (a b : string * string) : bool := String.eqb (fst a) (fst b) && String.eqb (snd a) (snd b).

Fixpoint list_eqb {A} (eqb : A -> A -> bool) (a b : list A) : bool :=
  match a, b with
  | [], [] => true
  | x :: a', y :: b' => eqb x y && list_eqb eqb a' b'
  | _, _ => false
  end.

Fixpoint nodup_str (l : list string) : bool :=
  match l with [] => true | x :: t => negb (str_in x t) && nodup_str t end.

Definition derived (src : string) : bool := String.prefix "!" src.

(* one translation block against the fields of the node's event value and the fields the event
   carries: every field of the delivered value is filled, exactly once, from a field of the event
   (or a value derived from it), no event field feeds two node fields, a node field that bears the
   name of an event field is filled from that field, and the common part is the canonical one *)
Definition block_ok (nfields efields : list string) (pairs common : list (string * string)) : bool :=
  let direct := filter (fun p => negb (derived (snd p))) pairs in
  forallb (fun f => str_in f (map fst pairs)) nfields
  && forallb (fun p => str_in (fst p) nfields) pairs
  && forallb (fun p => str_in (snd p) efields) direct
  && forallb (fun p => if derived (snd p) then str_in (fst p) efields else true) pairs
  && nodup_str (map snd direct) && nodup_str (map fst pairs)
  && forallb (fun p => if str_in (fst p) efields then String.eqb (fst p) (snd p) else true) direct
  && list_eqb pair_eqb common canonical_common.

Fixpoint lookup_str {A} (k : string) (l : list (string * A)) : option A :=
  match l with [] => None | (k', v) :: t => if String.eqb k k' then Some v else lookup_str k t end.

Definition table_ok (blocks : list (string * string * string * list (string * string) * list (string * string)))
                    (efields nfields : list (string * list string)) (subs : list string) : bool :=
  forallb (fun s =>
    match find (fun b => String.eqb (fst (fst (fst (fst b)))) s) blocks with
    | Some (_, ev, st, pairs, common) =>
        match lookup_str ev efields, lookup_str st nfields with
        | Some efs, Some nfs => block_ok nfs efs pairs common
        | _, _ => false
        end
    | None => false
    end) subs.

(* errors of a websocket subscription name the websocket endpoint they come from (the node
   disconnects the endpoint the error names) *)
Definition errors_ok (idx : list (string * list string)) (subs : list string) : bool :=
  forallb (fun s => match lookup_str s idx with
                    | Some l => negb (match l with [] => true | _ => false end)
                                && forallb (String.eqb "getWsIndex(ctx)") l
                    | None => false
                    end) subs.

(* ---------------------------------------------------------------- entry point *)

Definition val_elog (v : val) : elog :=
  match v with
  | VL [VB d; VZ b; VZ r; VZ e] => mkelog d (Z.to_N b) (negb (Z.eqb r 0)) e
  | _ => mkelog [] 0 true 0
  end.

Fixpoint insert_z (x : Z) (l : list Z) : list Z :=
  match l with [] => [x] | y :: t => if (x <=? y)%Z then x :: l else y :: insert_z x t end.

(* op 1: the merged stream -> the delivered events (as a sorted list: the order in which the
   endpoints' streams interleave is not observable) *)
Definition entry_firstevent (op : Z) (args : list val) : val :=
  match op, args with
  | 1%Z, [VL ls] =>
      VL (map VZ (fold_right insert_z [] (map l_event (first_event [] (map val_elog ls)))))
  | _, _ => VErr
  end.
