(* PipesCheck.v -- the static conditions [wf] as a boolean function, so that they are decided
   by computation on the generated networks. *)
From Coq Require Import List Arith Bool Lia PeanoNat.
From DosVerif Require Import Models.Pipes.
Import ListNotations.

Definition memb (e : event) (l : list event) : bool := existsb (event_eqb e) l.
Definition inclb (a b : list event) : bool := forallb (fun e => memb e b) a.
Definition memn (n : nat) (l : list nat) : bool := existsb (Nat.eqb n) l.

Fixpoint nodupb (l : list nat) : bool :=
  match l with [] => true | x :: t => negb (memn x t) && nodupb t end.

Definition opt_is (o : option nat) (p : nat) : bool :=
  match o with Some q => q =? p | None => false end.

Section Check.
Variable N : net.

Definition send_ok (p pc : nat) (c : chan) : bool :=
  match closer N c with
  | None => true
  | Some q =>
      ((q =? p) && negb (memb (EClosed c) (may_at N p pc)))
      || match wg_for N c with
         | Some w => memn p (members N w) && negb (memb (EDone w) (may_at N p pc))
         | None => false
         end
  end.

Definition await_arm_ok (p : nat) (a : arm) : bool :=
  match a with
  | ARecv c _ _ =>
      match closer N c with Some q => owes N c && (prank (P N q) <? prank (P N p)) | None => false end
  | ASend _ _ => false
  end.

Definition kind_ok (p pc : nat) (nd : node) : bool :=
  match nd with
  | NSel arms dn df =>
      (match dn with
       | Some _ => true
       | None => (match df with None => negb (match arms with [] => true | _ => false end) | Some _ => true end)
                 && forallb (await_arm_ok p) arms
       end)
      && forallb (fun a => match a with ASend c _ => send_ok p pc c | ARecv _ _ _ => true end) arms
  | NTau succs => negb (match succs with [] => true | _ => false end)
  | NClose c _ =>
      opt_is (closer N c) p && negb (memb (EClosed c) (may_at N p pc))
      && match wg_for N c with Some w => memb (EWaited w) (must_at N p pc) | None => true end
  | NWgDone w _ => memn p (members N w) && negb (memb (EDone w) (may_at N p pc))
  | NWgWait w _ => forallb (fun m => prank (P N m) <? prank (P N p)) (members N w)
  | NExit =>
      forallb (fun c => if opt_is (closer N c) p && owes N c then memb (EClosed c) (must_at N p pc) else true)
              (seq 0 (length (closers N)))
      && forallb (fun w => if memn p (members N w) then memb (EDone w) (must_at N p pc) else true)
                 (seq 0 (length (wgs N)))
  | _ => true
  end.

Definition check_node (p pc : nat) : bool :=
  let nd := node_at N p pc in
  forallb (fun k => k <? length (code (P N p))) (succs_of nd)
  && forallb (fun k => rk_at N p k <? rk_at N p pc) (rk_edges nd)
  && forallb (fun k => inclb (must_at N p k) (events_of nd ++ must_at N p pc)) (succs_of nd)
  && forallb (fun k => inclb (events_of nd ++ may_at N p pc) (may_at N p k)) (succs_of nd)
  && kind_ok p pc nd.

Definition check_proc (p : nat) : bool :=
  (0 <? length (code (P N p)))
  && inclb (must_at N p 0) []
  && forallb (fun r => r <? rkbound N) (rk (P N p))
  && forallb (check_node p) (seq 0 (length (code (P N p)))).

Definition check_net : bool :=
  (0 <? rkbound N)
  && forallb (fun c => match closer N c with Some p => p <? length (procs N) | None => true end)
             (seq 0 (length (closers N)))
  && forallb (fun c => if owes N c then match closer N c with Some _ => true | None => false end else true)
             (seq 0 (length (owed N)))
  && forallb (fun w => forallb (fun m => m <? length (procs N)) (members N w) && nodupb (members N w))
             (seq 0 (length (wgs N)))
  && forallb check_proc (seq 0 (length (procs N))).

End Check.
