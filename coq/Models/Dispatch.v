(* Dispatch.v -- the request/reply correlation of one p2p connection: client.dispatch
   (/repo/p2p/client.go) with the once-only completion of p2pRequest (/repo/p2p/request.go).

   A request r is an identifier (the harness' tag).  The dispatcher numbers requests with a
   per-connection counter, remembers nonce -> request, and completes the request whose nonce a
   reply carries (unless that request's context is already done).  waitForResult returns the first
   of: the completion, the request's own cancellation.  ConnDone: the client context ends; every
   request still in the table is completed with an error. *)
From Coq Require Import ZArith List Bool Lia.
From DosVerif Require Import Base.Val.
Import ListNotations.
Open Scope Z_scope.

Inductive dev : Type :=
| DSend (r : Z)                 (* the request enters the dispatcher *)
| DReply (nonce : Z) (m : Z)    (* a reply frame with that request nonce and content m arrives *)
| DCancel (r : Z)               (* the request's context is cancelled / its deadline passes *)
| DConnDone.                    (* the connection's context ends *)

Inductive result : Type := ROk (m : Z) | RCancelled | RConnErr.

Record dstate : Type := mkd {
  next : Z;
  table : list (Z * Z);           (* nonce -> request *)
  returned : list (Z * result);   (* what waitForResult returned, per request, first wins *)
  wire : list (Z * Z);            (* (request, nonce) as put on the wire *)
  alive : bool
}.

Definition d0 : dstate := mkd 0 [] [] [] true.

Fixpoint lookupz {A} (k : Z) (l : list (Z * A)) : option A :=
  match l with [] => None | (k', v) :: t => if k =? k' then Some v else lookupz k t end.

Fixpoint removez {A} (k : Z) (l : list (Z * A)) : list (Z * A) :=
  match l with [] => [] | (k', v) :: t => if k =? k' then removez k t else (k', v) :: removez k t end.

(* once-only: the first return stands *)
Definition complete (r : Z) (x : result) (ret : list (Z * result)) : list (Z * result) :=
  match lookupz r ret with Some _ => ret | None => ret ++ [(r, x)] end.

Definition dstep (s : dstate) (e : dev) : dstate :=
  match e with
  | DSend r =>
      if alive s
      then mkd (next s + 1) ((next s, r) :: table s) (returned s) (wire s ++ [(r, next s)]) true
      else s                                       (* nobody reads peerSend any more *)
  | DReply n m =>
      if alive s then
        match lookupz n (table s) with
        | Some r => mkd (next s) (removez n (table s)) (complete r (ROk m) (returned s)) (wire s) true
        | None => s
        end
      else s
  | DCancel r => mkd (next s) (table s) (complete r RCancelled (returned s)) (wire s) (alive s)
  | DConnDone =>
      if alive s
      then mkd (next s) [] (fold_left (fun ret nr => complete (snd nr) RConnErr ret) (table s) (returned s)) (wire s) false
      else s
  end.

Definition drun (es : list dev) : dstate := fold_left dstep es d0.

(* ---------------------------------------------------------------- entry point *)

Definition val_dev (v : val) : dev :=
  match v with
  | VL [VZ 0; VZ r] => DSend r
  | VL [VZ 1; VZ n; VZ m] => DReply n m
  | VL [VZ 2; VZ r] => DCancel r
  | _ => DConnDone
  end.

Definition result_val (x : result) : val :=
  match x with ROk m => VL [VZ 0; VZ m] | RCancelled => VL [VZ 1] | RConnErr => VL [VZ 2] end.

Fixpoint insert_ret (x : Z * result) (l : list (Z * result)) : list (Z * result) :=
  match l with
  | [] => [x]
  | y :: t => if fst x <=? fst y then x :: l else y :: insert_ret x t
  end.

Definition sort_ret (l : list (Z * result)) : list (Z * result) := fold_right insert_ret [] l.

(* op 1: events -> ( (request nonce)... ) ( (request result)... ), the returns listed by request
   (the order in which the end of the connection fails the pending requests is a map iteration) *)
Definition entry_dispatch (op : Z) (args : list val) : val :=
  match op, args with
  | 1, [VL evs] =>
      let s := drun (map val_dev evs) in
      VL [VL (map (fun rn => VL [VZ (fst rn); VZ (snd rn)]) (wire s));
          VL (map (fun rx => VL [VZ (fst rx); result_val (snd rx)]) (sort_ret (returned s)))]
  | _, _ => VErr
  end.
