(* EntryBn.v -- wire-level entry points of the bn256 value-level model. *)
From Coq Require Import ZArith List Bool.
From DosVerif Require Import Base.Val Base.Field Models.Bn.
Import ListNotations.
Local Open Scope Z_scope.

Definition ov {A} (f : A -> val) (o : option A) : val := match o with Some a => f a | None => VErr end.

Definition entry_bn (op : Z) (args : list val) : val :=
  match op, args with
  | 1, [VB b] => ov (fun p => VB (g1_marshal p)) (g1_unmarshal b)
  | 2, [VB b] => ov (fun p => VB (g2_marshal p)) (g2_unmarshal b)
  | 3, [VB b] => ov (fun k => VB (scalar_marshal k)) (scalar_unmarshal b)
  | 4, [VZ k] => VB (g1_marshal (g1_mul g1_gen k))
  | 5, [VZ k] => VB (g2_marshal (g2_mul g2_gen k))
  | 6, [VB a; VB b] =>
      match g1_unmarshal a, g1_unmarshal b with
      | Some p, Some r => VB (g1_marshal (jac_add fp_ops p r)) | _, _ => VErr end
  | 7, [VB a; VB b] =>
      match g2_unmarshal a, g2_unmarshal b with
      | Some p, Some r => VB (g2_marshal (jac_add fp2o p r)) | _, _ => VErr end
  | 8, [VB a; VZ k] => ov (fun p => VB (g1_marshal (g1_mul p k))) (g1_unmarshal a)
  | 9, [VB a; VZ k] => ov (fun p => VB (g2_marshal (g2_mul p k))) (g2_unmarshal a)
  | 10, [VB a] => ov (fun p => VB (g1_marshal (jac_neg fp_ops p))) (g1_unmarshal a)
  | 11, [VB a] => ov (fun p => VB (g2_marshal (jac_neg fp2o p))) (g2_unmarshal a)
  | 12, [VZ k1; VZ k2] =>     (* k1*G + k2*G through Add on Jacobian (non-normalised) operands *)
      VB (g1_marshal (jac_add fp_ops (g1_mul g1_gen k1) (g1_mul g1_gen k2)))
  | 13, [VZ k1; VZ k2] =>
      VB (g2_marshal (jac_add fp2o (g2_mul g2_gen k1) (g2_mul g2_gen k2)))
  | _, _ => VErr
  end.

(* ---------------------------------------------------------------- pairing and field entry points *)
From DosVerif Require Import Gen.BnConsts Models.BnPairing.

(* a G2 operand: ( z0 k ) = k*G2 as Mul leaves it; ( z1 k ) = the same, normalised through its
   encoding (z = 1, t = 1); ( z2 k ) = Neg of the normalised point (z = 1, cached t = 0);
   ( z3 k ) = Neg of the Jacobian result (z generic) *)
Definition dec_tw (v : val) : tpt :=
  match v with
  | VL [VZ 0; VZ k] => let a := g2_mul g2_gen k in tpt_of_jac a fp2_one
  | VL [VZ 1; VZ k] => let a := make_affine fp2o (g2_mul g2_gen k) in
                       if is_inf fp2o a then mktpt fp2_zero fp2_one fp2_zero fp2_zero else tpt_of_jac a fp2_one
  | VL [VZ 2; VZ k] => let a := make_affine fp2o (g2_mul g2_gen k) in
                       if is_inf fp2o a then mktpt fp2_zero fp2_one fp2_zero fp2_zero
                       else tpt_of_jac (jac_neg fp2o a) fp2_zero
  | VL [VZ 3; VZ k] => tpt_of_jac (jac_neg fp2o (g2_mul g2_gen k)) fp2_zero
  | _ => mktpt fp2_zero fp2_one fp2_zero fp2_zero
  end.

Definition dec_pairs (l : list val) : list (jac (K:=Fp) * tpt) :=
  map (fun v => match v with
                | VL [VZ k; tw] => (g1_mul g1_gen k, dec_tw tw)
                | _ => (jac_inf fp_ops, dec_tw VNone) end) l.

Definition rinv : Z := Eval vm_compute in (modinv bn_p (2 ^ 256)).

Definition entry_bn2 (op : Z) (args : list val) : val :=
  match op, args with
  | 20, [VZ k; tw] => VB (fp12_marshal (optimal_ate (dec_tw tw) (g1_mul g1_gen k)))      (* Pair *)
  | 21, [VL pairs] => vbool (pairing_check (dec_pairs pairs))                              (* PairingCheck *)
  | 22, [VZ k] => VB (fp12_marshal (fp12_exp (optimal_ate (dec_tw (VL [VZ 0; VZ 1])) g1_gen) k))  (* gt^k *)
  (* base-field primitives on values (operands are numbers < 2^256) *)
  | 30, [VZ a; VZ b] => VZ ((a + b) mod bn_p)
  | 31, [VZ a; VZ b] => VZ ((a - b) mod bn_p)
  | 32, [VZ a] => VZ ((- a) mod bn_p)
  | 33, [VZ a; VZ b] => VZ ((a * b * rinv) mod bn_p)                                       (* Montgomery product *)
  | 34, [VZ a] => VZ ((a * 2 ^ 256) mod bn_p)                                              (* montEncode *)
  | 35, [VZ a] => VZ ((a * rinv) mod bn_p)                                                 (* montDecode *)
  | 36, [VZ a] => VZ ((modinv bn_p ((a * rinv) mod bn_p) * 2 ^ 256) mod bn_p)             (* Invert, Montgomery form in and out *)
  | _, _ => entry_bn op args
  end.
