(* EntryBn.v -- wire-level entry points of the bn256 value-level model. *)
From Coq Require Import ZArith List Bool.
From DosVerif Require Import Base.Val Base.Field Models.Bn.
Import ListNotations.
Local Open Scope Z_scope.

Definition ov {A} (f : A -> val) (o : option A) : val := match o with Some a => f a | None => VErr end.

Definition entry_bn (op : Z) (args : list val) : val :=
  match op, args with
  | 1, [VB b] => ov (fun p => VB (g1_marshal p)) (g1_unmarshal b)
  | 2, [VB b] => ov (fun p => VB (g2_marshal p)) (g2_unmarshal b)
  | 3, [VB b] => ov (fun k => VB (scalar_marshal k)) (scalar_unmarshal b)
  | 4, [VZ k] => VB (g1_marshal (g1_mul g1_gen k))
  | 5, [VZ k] => VB (g2_marshal (g2_mul g2_gen k))
  | 6, [VB a; VB b] =>
      match g1_unmarshal a, g1_unmarshal b with
      | Some p, Some r => VB (g1_marshal (jac_add fp_ops p r)) | _, _ => VErr end
  | 7, [VB a; VB b] =>
      match g2_unmarshal a, g2_unmarshal b with
      | Some p, Some r => VB (g2_marshal (jac_add fp2o p r)) | _, _ => VErr end
  | 8, [VB a; VZ k] => ov (fun p => VB (g1_marshal (g1_mul p k))) (g1_unmarshal a)
  | 9, [VB a; VZ k] => ov (fun p => VB (g2_marshal (g2_mul p k))) (g2_unmarshal a)
  | 10, [VB a] => ov (fun p => VB (g1_marshal (jac_neg fp_ops p))) (g1_unmarshal a)
  | 11, [VB a] => ov (fun p => VB (g2_marshal (jac_neg fp2o p))) (g2_unmarshal a)
  | 12, [VZ k1; VZ k2] =>     (* k1*G + k2*G through Add on Jacobian (non-normalised) operands *)
      VB (g1_marshal (jac_add fp_ops (g1_mul g1_gen k1) (g1_mul g1_gen k2)))
  | 13, [VZ k1; VZ k2] =>
      VB (g2_marshal (jac_add fp2o (g2_mul g2_gen k1) (g2_mul g2_gen k2)))
  | _, _ => VErr
  end.
