(* Guards.v -- the input-handling skeleton of the code that parses what peers send: which Go
   operation can panic (slice index, slice expression, nil-pointer field access) and which guard
   stands in front of it.  Every handler is written in the three-valued [res] monad; the partial
   Go operations return [Panic] exactly where the Go runtime would.

   Modelled code:
     gen_pubs      share/dkg/pedersen/pdkg_pipes.go genDistKeyGenerator (the loop over the
                   received public-key messages) + the own-key search of NewDistKeyGenerator
     decode_pkt    p2p/client.go decodeBytes followed by decodePipe's signature check
     handshake     p2p/client.go exchangeID / receiveID: id frame, key decoding, session key slices
     gossip_name   p2p/discover/membership.go serfNet.Listen
     disp_*        share/dkg/pedersen/pdkg.go handlePeerMsg / handleRequest (one buffer pair of Loop)
   The [_old] variants are the code as it was before the repairs recorded in known_findings.json. *)
From Coq Require Import ZArith NArith List Bool Lia.
From DosVerif Require Import Base.Val.
Import ListNotations.
Open Scope Z_scope.

(* ---------------------------------------------------------------- partial Go operations *)

Definition go_index {A} (l : list A) (i : Z) : res A :=
  if (i <? 0) || (Z.of_nat (length l) <=? i) then Panic
  else match nth_error l (Z.to_nat i) with Some a => Ok a | None => Panic end.

Definition go_slice_ok (len lo hi : Z) : bool := (0 <=? lo) && (lo <=? hi) && (hi <=? len).

(* l[lo:hi] on a slice whose capacity equals its length (true of every slice modelled here:
   they come straight from MarshalBinary / a string) *)
Definition go_slice {A} (l : list A) (lo hi : Z) : res (list A) :=
  if go_slice_ok (Z.of_nat (length l)) lo hi
  then Ok (firstn (Z.to_nat (hi - lo)) (skipn (Z.to_nat lo) l)) else Panic.

Definition go_deref {A} (o : option A) : res A :=
  match o with Some a => Ok a | None => Panic end.

Notation "x <- e ;; k" := (res_bind e (fun x => k)) (at level 61, e at next level, right associativity).

Fixpoint set_nth {A} (l : list A) (n : nat) (a : A) : list A :=
  match l, n with
  | [], _ => []
  | _ :: t, O => a :: t
  | h :: t, S n' => h :: set_nth t n' a
  end.

(* ---------------------------------------------------------------- genDistKeyGenerator *)

(* bytes of a key: they decode to the point with discrete log k, or fail to decode *)
Inductive keyc : Type := KGood (k : Z) | KBad.

Record pubmsg : Type := mkpub {
  pm_index : Z;                  (* uint32 on the wire *)
  pm_key : option keyc           (* the optional Publickey sub-message *)
}.

Definition pub_malformed (n : Z) (p : option pubmsg) : bool :=
  match p with
  | None => true
  | Some m => match pm_key m with None => true | Some _ => n <=? pm_index m end
  end.

Fixpoint fill (guarded : bool) (slots : list (option Z)) (pubs : list (option pubmsg))
  : res (list (option Z)) :=
  match pubs with
  | [] => Ok slots
  | p :: ps =>
      if guarded && pub_malformed (Z.of_nat (length slots)) p then Err else
      m <- go_deref p ;;
      cur <- go_index slots (pm_index m) ;;
      match cur with
      | Some _ => Err                                   (* ErrDupPubKeyIndex *)
      | None =>
          k <- go_deref (pm_key m) ;;
          match k with
          | KBad => Err                                 (* UnmarshalBinary failed *)
          | KGood z => fill guarded (set_nth slots (Z.to_nat (pm_index m)) (Some z)) ps
          end
      end
  end.

(* NewDistKeyGenerator: the own public key must be among the points.  The batch always has
   exactly n messages (askMembers delivers n-1, exchangePub adds the own one and forwards the
   batch when its length equals the group size), so after n fills without a duplicate every
   slot is set (GuardsProofs.fill_all_set). *)
Definition count_set (slots : list (option Z)) : nat :=
  length (filter (fun s => match s with Some _ => true | None => false end) slots).

(* initDistKeyGenerator: "for i, p := range participants { if p.Equal(pub) ..." -- a method call
   on a nil interface panics *)
Fixpoint find_own (own : Z) (slots : list (option Z)) : res bool :=
  match slots with
  | [] => Ok false
  | None :: _ => Panic
  | Some k :: t => if k =? own then Ok true else find_own own t
  end.

Definition gen_pubs_with (guarded : bool) (n own : Z) (pubs : list (option pubmsg)) : res (list (option Z)) :=
  slots <- fill guarded (repeat None (Z.to_nat n)) pubs ;;
  f <- find_own own slots ;;
  if (f : bool) then Ok slots else Err.

Definition gen_pubs := gen_pubs_with true.
Definition gen_pubs_old := gen_pubs_with false.

(* ---------------------------------------------------------------- packet decoding *)

Record anyd : Type := mkany { a_known : bool }.         (* type URL registered and body parses *)

Record pkt : Type := mkpkt {
  p_unmarshal_ok : bool;                                (* proto.Unmarshal(bytes, &Package{}) *)
  p_any : option anyd;                                  (* the optional Anything field *)
  p_sig_ok : bool                                       (* bls.Verify over Anything.Value *)
}.

(* vf: is a verify function passed to decodeBytes (the handshake passes none) *)
Definition decode_bytes_with (guarded : bool) (vf : bool) (p : pkt) : res unit :=
  if negb (p_unmarshal_ok p) then Err else
  if guarded && match p_any p with None => true | Some _ => false end then Err else
  _ <- (if vf then (a <- go_deref (p_any p) ;; if p_sig_ok p then Ok tt else Err) else Ok tt) ;;
  match p_any p with
  | None => Err                                         (* UnmarshalAny: message is nil *)
  | Some a => if a_known a then Ok tt else Err
  end.

(* decodePipe: decodeBytes with the client's verifyFn (bls.Verify against the peer's handshake
   key), then bls.Verify once more on pa.GetAnything().Value *)
Definition decode_pkt_with (guarded : bool) (p : pkt) : res unit :=
  _ <- decode_bytes_with guarded true p ;;
  a <- go_deref (p_any p) ;;
  if p_sig_ok p then Ok tt else Err.

Definition decode_pkt := decode_pkt_with true.
Definition decode_pkt_old := decode_pkt_with false.

(* ---------------------------------------------------------------- handshake *)

Inductive hkey : Type := HBad | HIdentity | HPoint.     (* what the peer's key bytes decode to *)

(* length of MarshalBinary of localSecKey * remoteKey on G2: the identity encodes to one byte
   (known finding of C06), every other point to 128 *)
Definition dh_len (k : hkey) : Z := match k with HIdentity => 1 | _ => 128 end.

Definition handshake_with (guarded : bool) (frame_is_id : bool) (k : hkey) : res unit :=
  if negb frame_is_id then Err else
  match k with
  | HBad => Err
  | _ =>
      let dh := repeat 0%N (Z.to_nat (dh_len k)) in
      if guarded && (Z.of_nat (length dh) <? 44) then Err else
      _ <- go_slice dh 0 32 ;;
      _ <- go_slice dh 32 44 ;;
      Ok tt
  end.

Definition handshake := handshake_with true.
Definition handshake_old := handshake_with false.

(* ---------------------------------------------------------------- gossip member names *)

(* Ok (Some id) = event emitted with that node id, Ok None = member skipped *)
Definition gossip_name_with (guarded : bool) (name : list N) : res (option (list N)) :=
  if guarded && (Z.of_nat (length name) <? 20) then Ok None else
  id <- go_slice name 0 20 ;; Ok (Some id).

Definition gossip_name := gossip_name_with true.
Definition gossip_name_old := gossip_name_with false.

(* ---------------------------------------------------------------- one buffer pair of pdkg.Loop *)

(* a buffered message: the member index it claims and, for a response, the inner (dealer) index;
   [None] models a nil *Response or a Response whose inner message is nil *)
Inductive item : Type :=
| IPub (i : Z)
| IDeal (i : Z)
| IResp (r : option (Z * Z)).

Definition item_dup (a b : item) : bool :=
  match a, b with
  | IPub i, IPub j => i =? j
  | IDeal i, IDeal j => i =? j
  | IResp (Some (i, k)), IResp (Some (j, l)) => (i =? j) && (k =? l)
  | _, _ => false
  end.

Definition item_dropped (a : item) : bool := match a with IResp None => true | _ => false end.

Inductive dev : Type :=
| DPeer (sid : Z) (m : item)
| DReq (sid : Z) (n : Z) (h : Z).        (* a stage asks for n messages; h names its reply channel *)

Record dst : Type := mkdst {
  dbuf : list (Z * list item);
  dreq : list (Z * (Z * Z))              (* sid -> (numOfResps, handle) *)
}.

Definition dst0 : dst := mkdst [] [].

Fixpoint zlookup {A} (k : Z) (m : list (Z * A)) : option A :=
  match m with
  | [] => None
  | (k', v) :: m' => if k =? k' then Some v else zlookup k m'
  end.

Fixpoint zremove {A} (k : Z) (m : list (Z * A)) : list (Z * A) :=
  match m with
  | [] => []
  | (k', v) :: m' => if k =? k' then zremove k m' else (k', v) :: zremove k m'
  end.

Definition zupdate {A} (k : Z) (v : A) (m : list (Z * A)) : list (Z * A) := (k, v) :: zremove k m.

Definition dbuf_of (s : dst) (sid : Z) : list item :=
  match zlookup sid (dbuf s) with Some l => l | None => [] end.

(* numOfResps of the (possibly zero-valued) request stored for sid *)
Definition dneed (s : dst) (sid : Z) : Z :=
  match zlookup sid (dreq s) with Some (n, _) => n | None => 0 end.

(* output: batches delivered (session, handle, messages) *)
Definition disp_step (s : dst) (e : dev) : res (dst * list (Z * (Z * list item))) :=
  match e with
  | DPeer sid m =>
      if item_dropped m then Ok (s, []) else
      if existsb (item_dup m) (dbuf_of s sid) then Ok (s, []) else
      let b := dbuf_of s sid ++ [m] in
      if Z.of_nat (length b) =? dneed s sid then
        (* sessionReq[sessionID].ctx.Done(): a nil context when no request is stored *)
        r <- go_deref (zlookup sid (dreq s)) ;;
        Ok (mkdst (zremove sid (dbuf s)) (zremove sid (dreq s)), [(sid, (snd r, b))])
      else Ok (mkdst (zupdate sid b (dbuf s)) (dreq s), [])
  | DReq sid n h =>
      if Z.of_nat (length (dbuf_of s sid)) =? n then
        Ok (mkdst (zremove sid (dbuf s)) (zremove sid (dreq s)), [(sid, (h, dbuf_of s sid))])
      else Ok (mkdst (dbuf s) (zupdate sid (n, h) (dreq s)), [])
  end.

Fixpoint disp_run (s : dst) (es : list dev) : res (dst * list (Z * (Z * list item))) :=
  match es with
  | [] => Ok (s, [])
  | e :: es' =>
      r1 <- disp_step s e ;;
      r2 <- disp_run (fst r1) es' ;;
      Ok (fst r2, snd r1 ++ snd r2)
  end.

Definition dev_sid (e : dev) : Z := match e with DPeer sid _ => sid | DReq sid _ _ => sid end.

(* ---------------------------------------------------------------- entry point *)

Definition val_z (v : val) : Z := match v with VZ z => z | _ => 0 end.
Definition val_l (v : val) : list val := match v with VL l => l | _ => [] end.

Definition val_keyc (kind k : Z) : option keyc :=
  if kind =? 0 then None else if kind =? 1 then Some (KGood k) else Some KBad.

Definition val_pub (v : val) : option pubmsg :=
  match val_l v with
  | [VZ present; VZ idx; VZ kind; VZ k] =>
      if present =? 0 then None else Some (mkpub idx (val_keyc kind k))
  | _ => None
  end.

Definition slot_val (s : option Z) : val := match s with Some k => VZ k | None => VNone end.

Definition val_item (v : val) : item :=
  match val_l v with
  | [VZ 0; VZ i] => IPub i
  | [VZ 1; VZ i] => IDeal i
  | [VZ 2; VZ i; VZ k] => IResp (Some (i, k))
  | _ => IResp None
  end.

Definition item_val (m : item) : val :=
  match m with
  | IPub i => VL [VZ 0; VZ i]
  | IDeal i => VL [VZ 1; VZ i]
  | IResp (Some (i, k)) => VL [VZ 2; VZ i; VZ k]
  | IResp None => VL [VZ 3]
  end.

Definition val_dev (v : val) : dev :=
  match val_l v with
  | [VZ 0; VZ sid; m] => DPeer sid (val_item m)
  | [VZ 1; VZ sid; VZ n; VZ h] => DReq sid n h
  | _ => DPeer 0 (IResp None)
  end.

Definition hkey_of (z : Z) : hkey := if z =? 0 then HBad else if z =? 1 then HIdentity else HPoint.

Definition entry_guards (op : Z) (args : list val) : val :=
  match op, args with
  | 1, [VZ n; VZ own; VL pubs] =>
      res_val (fun _ => VZ 1) (gen_pubs n own (map val_pub pubs))
  | 2, [VZ un; VZ any; VZ sig; VZ vf] =>
      res_val (fun _ => VZ 1)
        (decode_bytes_with true (negb (vf =? 0))
           (mkpkt (negb (un =? 0))
                  (if any =? 0 then None else Some (mkany (any =? 1)))
                  (negb (sig =? 0))))
  | 3, [VZ isid; VZ k] => res_val (fun _ => VZ 1) (handshake (negb (isid =? 0)) (hkey_of k))
  | 4, [VB name] =>
      res_val (fun o => match o with Some id => VB id | None => VNone end) (gossip_name name)
  | 5, [VL evs] =>
      res_val (fun r => VL (map (fun d => VL [VZ (fst (snd d)); VL (map item_val (snd (snd d)))]) (snd r)))
              (disp_run dst0 (map val_dev evs))
  | _, _ => VErr
  end.
