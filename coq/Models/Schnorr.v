(* Schnorr.v -- sign/schnorr/schnorr.go over the edwards25519 suite, next to RFC 8032 verification
   as crypto/ed25519 implements it; and the executable entry points for the scalar routines.

   Group elements are kept abstract (a module over the scalar field with a generator, Base/Field.v);
   what matters for inter-operation is on the wire: a signature is the encoding of a point R and a
   32-byte little-endian integer S.  The bundled verifier copies those 32 bytes into a scalar
   (Scalar.UnmarshalBinary: no range check; all arithmetic is modulo the order l), the standard
   verifier additionally requires S < l.  The challenge h = SHA-512(enc R || enc A || m) mod l is a
   parameter [hs]. *)
From Coq Require Import ZArith NArith List Bool Lia.
From DosVerif Require Import Base.Val Base.Field Models.ScLimbs Gen.Ref10Sc.
Import ListNotations.
Open Scope Z_scope.

Section Schnorr.
Context {F G M : Type}.
Variable O : Fops F.
Variable Mo : Gops F G.
Variable base : G.
Variable red : Z -> F.                 (* the scalar a wire integer stands for *)
Variable hs : G -> G -> M -> F.        (* the challenge *)

Record wsig : Type := mkwsig { w_R : G; w_S : Z }.

(* schnorr.Sign with nonce k and private scalar x; [repr]: the canonical integer of a scalar *)
Variable repr : F -> Z.

Definition sign (k x : F) (m : M) : wsig :=
  let R := gscale Mo k base in
  let A := gscale Mo x base in
  mkwsig R (repr (fadd O k (fmul O x (hs R A m)))).

Definition equation (A : G) (m : M) (s : wsig) : bool :=
  geqb Mo (gscale Mo (red (w_S s)) base) (gadd Mo (w_R s) (gscale Mo (hs (w_R s) A m) A)).

(* schnorr.Verify as it was: no range check on S *)
Definition verify_old (A : G) (m : M) (s : wsig) : bool := equation A m s.

(* crypto/ed25519.Verify, and schnorr.Verify after the repair: S must be the canonical integer *)
Definition verify_std (A : G) (m : M) (s : wsig) : bool := (w_S s <? ell) && (0 <=? w_S s) && equation A m s.

End Schnorr.

(* ---------------------------------------------------------------- executable scalar routines *)

Definition opnd_of (a b c : Z) (s : Z) (v i : nat) : Z :=
  let x := match v with 0%nat => a | 1%nat => b | 2%nat => c | _ => s end in
  let top := match v with 3%nat => 23%nat | _ => 11%nat end in
  if Nat.eqb i top then top_limb x (Z.of_nat i) else limb x (Z.of_nat i).

Definition run_routine (init : list (list term)) (ops : list op) (a b c s : Z) : Z :=
  value (run ops (eval_init (opnd_of a b c s) init)).

Definition val_z (v : val) : Z := match v with VZ z => z | _ => 0 end.

(* op 1..5: the generated limb programs on operands given as integers (the little-endian value of
   their bytes); result: the integer the final limbs stand for.
   op 6: the bundled verifier (with the range check) and the standard one on a signature given at
         the discrete-log level: ( x kR S h ) -> ( bundled std ), R = kR * B, A = x * B, challenge h
   op 7: the bundled verifier as it was (no range check) and the standard one *)
Definition entry_sc (op : Z) (args : list val) : val :=
  match op, args with
  | 1, [VZ a; VZ b; VZ c] => VZ (run_routine scMulAdd_init scMulAdd_ops a b c 0)
  | 2, [VZ a; VZ b] => VZ (run_routine scMul_init scMul_ops a b 0 0)
  | 3, [VZ a; VZ c] => VZ (run_routine scAdd_init scAdd_ops a 0 c 0)
  | 4, [VZ a; VZ c] => VZ (run_routine scSub_init scSub_ops a 0 c 0)
  | 5, [VZ s] => VZ (run_routine scReduce_init scReduce_ops 0 0 0 s)
  | 6, [VZ x; VZ kR; VZ sw; VZ h] =>
      let eqn := ((sw - (kR + h * x)) mod ell =? 0) in
      VL [vbool ((sw <? ell) && (0 <=? sw) && eqn); vbool ((sw <? ell) && (0 <=? sw) && eqn)]
  | 7, [VZ x; VZ kR; VZ sw; VZ h] =>
      let eqn := ((sw - (kR + h * x)) mod ell =? 0) in
      VL [vbool eqn; vbool ((sw <? ell) && (0 <=? sw) && eqn)]
  | _, _ => VErr
  end.
