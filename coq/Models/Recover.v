(* Recover.v -- model of the recoverSign stage (/repo/dosnode/dos_stages.go) on top of Tbls.v and
   Stages.v: the loop that collects signature shares and emits the one report of a request.
   A message is a vss.Signature as the stage sees it: Content and Signature may be nil.
   [hm_of c] is the logarithm of H(c) (keccak of the content, reduced). *)
From Coq Require Import ZArith List Bool.
From DosVerif Require Import Base.Val Base.Field Models.Share Models.Tbls Models.Stages.
Import ListNotations.
Local Open Scope Z_scope.

Section Recover.
Context {F : Type}.
Variable O : Fops F.
Variable d0 : bool.
Variable dec : list N -> option F.
Variable hm_of : list N -> F.
Variable pub : list F.          (* the group's polynomial (public polynomial = its commitment) *)
Variables t n : Z.

Record smsg : Type := mksmsg { m_content : option (list N); m_sig : option (list N) }.

Inductive sout : Type :=
| Cont                                  (* keep collecting *)
| Emit (result : list N) (sig : F)      (* the report: result = content without the trailing address *)
| SPanic.

(* one arrival; [collected]: the shares appended so far *)
Definition recover_step (collected : list (list N)) (m : option smsg) : list (list N) * sout :=
  match m with
  | None => (collected, Cont)                                   (* nil message: error reported, skipped *)
  | Some m =>
    match m_content m, m_sig m with
    | Some c, Some s =>
      let collected' := collected ++ [s] in
      if Z.of_nat (length collected') <? t then (collected', Cont)
      else match recover O d0 dec pub (hm_of c) collected' t n with
           | Ok sg =>
             (* bls.Verify(pubPoly.Commit(), content, sig) on the re-encoded point *)
             if feqb O (fmul O (hm_of c) (hd (f0 O) pub)) sg
             then match strip c with
                  | Ok r => (collected', Emit r sg)
                  | _ => (collected', Cont)                     (* shorter than an address: reported, skipped *)
                  end
             else (collected', Cont)
           | Err => (collected', Cont)
           | Panic => (collected', SPanic)
           end
    | _, _ => (collected, Cont)
    end
  end.

(* the stage: stops at the first report (or panic) *)
Fixpoint run_stage (collected : list (list N)) (ms : list (option smsg)) : sout :=
  match ms with
  | [] => Cont
  | m :: rest =>
    match recover_step collected m with
    | (c', Cont) => run_stage c' rest
    | (_, o) => o
    end
  end.

End Recover.

(* wire: ( q d0 pub hashes table t n msgs ), hashes = ( ( b<content> z<hm> ) ... ), msgs = ( ( b|N b|N ) | N ... ) *)
From DosVerif Require Import Models.EntryShare Models.EntryTbls.

Definition table_hm (q : Z) (tbl : list val) (c : list N) : zq q :=
  match find (fun e => match e with VL [VB k; _] => bytes_eqb k c | _ => false end) tbl with
  | Some (VL [_; VZ d]) => zq_of q d
  | _ => zq_of q 0
  end.

Definition dec_smsg (v : val) : option smsg :=
  match v with
  | VL [c; s] => Some (mksmsg (match c with VB b => Some b | _ => None end)
                              (match s with VB b => Some b | _ => None end))
  | _ => None
  end.

Definition entry_recover (op : Z) (args : list val) : val :=
  match op, args with
  | 1%Z, [VZ q; VZ d; VL pub; VL hashes; VL tbl; VZ t; VZ n; VL msgs] =>
      match run_stage (zq_ops q) (is1 d) (table_dec q tbl) (table_hm q hashes) (zs q pub) t n [] (map dec_smsg msgs) with
      | Cont => VNone
      | Emit r sg => VL [VB r; VG 1 (zv sg)]
      | SPanic => VPanic
      end
  | _, _ => VErr
  end.
