(* AdaptorGas.v -- the gas settings of the transactions an ethAdaptor sends (/repo/onchain), as a layer
   over Models/Adaptor.v.  Connect (eth_proxy.go) builds, per RPC endpoint, one DosproxySession and
   one CommitrevealSession whose TransactOpts carry the adaptor's gasPrice / gasLimit at that moment;
   SetGasPrice / SetGasLimit (eth_set.go) store the new value in the adaptor and walk
       for i := 0; i < len(e.proxies) && i < len(e.crs); i++
   over both session lists; a state-changing call is made through the session of the endpoint it is
   tried at (proxies[i] for the proxy contract's methods, crs[i] for Commit / Reveal) and carries
   that session's options.  A setting is the pair (price, limit); price 0 ("ask the node") is outside
   the modelled domain. *)
From Coq Require Import ZArith NArith List Bool Lia.
From DosVerif Require Import Base.Val Models.Abi Models.Adaptor.
Import ListNotations.
Open Scope Z_scope.

Definition gas : Type := (Z * Z)%type.

Record gst : Type := mkg { g_h : hst; g_cfg : gas; g_prox : list gas; g_crs : list gas }.

Inductive gev : Type :=
| GRead (rs : list rout)
| GWrite (cr : bool) (os : list outcome)     (* cr: a Commit / Reveal call (commit-reveal sessions) *)
| GBatch (crs : list bool)                    (* calls queued together, per call whether it is Commit / Reveal *)
| GReconnect
| GSetGas (g : gas).

Inductive gout : Type :=
| GOut (o : hout) (gs : list (option gas))    (* the adaptor's answer; the settings carried by each transaction an endpoint received *)
| GOutSet.

(* the loop of SetGasPrice / SetGasLimit over the first k sessions *)
Fixpoint set_first (k : nat) (g : gas) (l : list gas) : list gas :=
  match k, l with
  | S k', _ :: r => g :: set_first k' g r
  | _, _ => l
  end.

Definition set_gas (s : gst) (g : gas) : gst :=
  let k := Nat.min (length (g_prox s)) (length (g_crs s)) in
  mkg (g_h s) g (set_first k g (g_prox s)) (set_first k g (g_crs s)).

Definition gas_of_sent (sess : list gas) (st : list nat) : list (option gas) :=
  map (fun i => nth_error sess i) st.

Definition sess_of (s : gst) (cr : bool) : list gas := if cr then g_crs s else g_prox s.

Definition sent_of (o : hout) : list nat := match o with OutWrite st _ _ => st | _ => [] end.

Fixpoint gbatch (kinds : list bool) (s : gst) (h : hst) : hst * list Z * list (option gas) :=
  match kinds with
  | [] => (h, [], [])
  | cr :: rest =>
      let '(h1, o) := write1 h (map (fun _ => OAccept) (h_alive h)) in
      let '(h2, ns, gs) := gbatch rest s h1 in
      (h2, match o with OutWrite _ _ (Some n) => n :: ns | _ => ns end,
       gas_of_sent (sess_of s cr) (sent_of o) ++ gs)
  end.

Definition gstep (s : gst) (e : gev) : gst * gout :=
  match e with
  | GRead rs =>
      let '(h', o) := hstep (g_h s) (HRead rs) in (mkg h' (g_cfg s) (g_prox s) (g_crs s), GOut o [])
  | GWrite cr os =>
      let '(h', o) := write1 (g_h s) os in
      (mkg h' (g_cfg s) (g_prox s) (g_crs s), GOut o (gas_of_sent (sess_of s cr) (sent_of o)))
  | GBatch kinds =>
      let '(h', ns, gs) := gbatch kinds s (g_h s) in
      (mkg h' (g_cfg s) (g_prox s) (g_crs s), GOut (OutBatch ns) gs)
  | GReconnect =>
      let '(h', o) := hstep (g_h s) HReconnect in
      (mkg h' (g_cfg s) (map (fun _ => g_cfg s) (g_prox s)) (map (fun _ => g_cfg s) (g_crs s)), GOut o [])
  | GSetGas g => (set_gas s g, GOutSet)
  end.

Fixpoint grun (s : gst) (es : list gev) : gst * list gout :=
  match es with
  | [] => (s, [])
  | e :: es' => let '(s1, o) := gstep s e in let '(s2, os) := grun s1 es' in (s2, o :: os)
  end.

Definition g0 (n : nat) (nonce : Z) (cfg : gas) : gst := mkg (h0 n nonce) cfg (repeat cfg n) (repeat cfg n).

(* the adaptor event a gas-layer event stands for *)
Definition hev_of (e : gev) : option hev :=
  match e with
  | GRead rs => Some (HRead rs)
  | GWrite _ os => Some (HWrite os)
  | GBatch kinds => Some (HBatch (length kinds))
  | GReconnect => Some HReconnect
  | GSetGas _ => None
  end.

Definition hout_of (o : gout) : option hout := match o with GOut o _ => Some o | GOutSet => None end.

Fixpoint omap {A B} (f : A -> option B) (l : list A) : list B :=
  match l with
  | [] => []
  | x :: r => match f x with Some y => y :: omap f r | None => omap f r end
  end.

(* ---------------------------------------------------------------- entry point *)

Definition dec_gas (p l : Z) : gas := (p, l).

Definition dec_gev (v : val) : gev :=
  match v with
  | VL [VZ 0; VL rs] => GRead (map (fun r => match r with VZ z => rout_of z | _ => ROtherErr end) rs)
  | VL [VZ 1; VZ cr; VL os] => GWrite (negb (cr =? 0)) (map (fun o => match o with VZ z => outcome_of z | _ => OOther end) os)
  | VL [VZ 2; VL ks] => GBatch (map (fun k => match k with VZ z => negb (z =? 0) | _ => false end) ks)
  | VL [VZ 3] => GReconnect
  | VL [VZ 4; VZ p; VZ l] => GSetGas (p, l)
  | _ => GBatch []
  end.

Definition enc_gas (g : option gas) : val :=
  match g with Some (p, l) => VL [VZ p; VZ l] | None => VNone end.

Definition enc_gout (o : gout) : val :=
  match o with
  | GOut o gs => VL [enc_hout o; VL (map enc_gas gs)]
  | GOutSet => VL [VZ 4]
  end.

Definition entry_adaptor_gas (op : Z) (args : list val) : val :=
  match op, args with
  | 1, [VZ n; VZ nonce; VZ p; VZ l; VL evs] =>
      VL (map enc_gout (snd (grun (g0 (Z.to_nat n) nonce (p, l)) (map dec_gev evs))))
  | _, _ => VErr
  end.
