(* Framing.v -- model of writeTo / readFrom in /repo/p2p/client.go: 4-byte big-endian length
   prefix, payload of 1 .. 2^20 bytes.  A connection is the list of chunks successive Read calls
   can return from: Read(buf) returns min(len buf, len chunk) bytes of the current chunk, the rest
   of the chunk stays for the next Read; when no chunk is left Read returns io.EOF. *)
From Coq Require Import ZArith NArith List Bool.
From DosVerif Require Import Base.Val.
Import ListNotations.

Definition conn := list (list N).

Definition size_limit : N := 1048576%N.   (* msgSizeLimit = 1024 * 1024 *)
Definition header_size : nat := 4.

(* the two read loops: keep calling Read until k bytes have arrived; None = a Read failed *)
Fixpoint read_exact (k : nat) (c : conn) : option (list N * conn) :=
  match k with
  | O => Some ([], c)
  | S _ =>
    match c with
    | [] => None
    | ch :: rest =>
      if Nat.leb (length ch) k then
        match read_exact (k - length ch) rest with
        | Some (more, c') => Some (ch ++ more, c')
        | None => None
        end
      else Some (firstn k ch, skipn k ch :: rest)
    end
  end.

Definition be_dec (l : list N) : N := fold_left (fun acc b => (acc * 256 + b)%N) l 0%N.

Definition be_enc4 (n : N) : list N :=
  [((n / 16777216) mod 256)%N; ((n / 65536) mod 256)%N; ((n / 256) mod 256)%N; (n mod 256)%N].

(* readFrom: result and the connection afterwards *)
Definition read_frame (c : conn) : res (list N) * conn :=
  match read_exact header_size c with
  | None => (Err, [])
  | Some (h, c1) =>
    let size := be_dec h in
    if (N.eqb size 0 || N.ltb size_limit size)%bool then (Err, c1)
    else match read_exact (N.to_nat size) c1 with
         | None => (Err, [])
         | Some (body, c2) => (Ok body, c2)
         end
  end.

(* writeTo: the bytes put on the wire; Err when the payload is over the limit *)
Definition write_frame (payload : list N) : res (list N) :=
  if N.ltb size_limit (N.of_nat (length payload)) then Err
  else Ok (be_enc4 (N.of_nat (length payload)) ++ payload).

(* the write loop of writeTo over a transport that takes at most lims[k] bytes on the k-th call (a
   short write); a limit of 0 is a transport that makes no progress, which net.Conn never does without
   an error.  Fuel = the number of Write calls allowed; returns what reached the wire *)
Fixpoint write_loop (fuel : nat) (buf : list N) (lims : list nat) : list N :=
  match fuel with
  | O => []
  | S f =>
    match buf with
    | [] => []
    | _ =>
      let k := match lims with [] => length buf | l :: _ => Nat.min l (length buf) end in
      firstn k buf ++ write_loop f (skipn k buf) (tl lims)
    end
  end.

Definition write_frame_short (payload : list N) (lims : list nat) : res (list N) :=
  match write_frame payload with
  | Ok b => Ok (write_loop (length b) b lims)
  | r => r
  end.

(* read up to k frames, stopping at the first error *)
Fixpoint read_frames (k : nat) (c : conn) : list (res (list N)) * conn :=
  match k with
  | O => ([], c)
  | S k' =>
    match read_frame c with
    | (Ok b, c') => let '(rs, c'') := read_frames k' c' in (Ok b :: rs, c'')
    | (r, c') => ([r], c')
    end
  end.

(* wire-level entry points *)
Definition vconn (l : list val) : conn := map (fun v => match v with VB b => b | _ => [] end) l.

Definition entry_framing (op : Z) (args : list val) : val :=
  match op, args with
  | 1%Z, [VL chunks; VZ k] =>            (* read k frames from a chunked stream *)
      let '(rs, c') := read_frames (Z.to_nat k) (vconn chunks) in
      VL [VL (map (res_val VB) rs); VZ (Z.of_nat (length (concat c')))]
  | 2%Z, [VB payload] =>                 (* writeTo *)
      res_val VB (write_frame payload)
  | 3%Z, [VB payload; VL lims] =>        (* writeTo over a transport with short writes *)
      res_val VB (write_frame_short payload (map (fun v => match v with VZ z => Z.to_nat z | _ => 1%nat end) lims))
  | _, _ => VErr
  end.
