(* ScLimbs.v -- the limb programs of group/edwards25519/scalar.go (the ref10 scalar arithmetic):
   24 signed limbs of nominally 21 bits; a routine is an initial limb vector (products and sums of
   the operands' limbs) followed by a sequence of two kinds of steps:
     Carry i r   carry := (s_i + (r ? 2^20 : 0)) >> 21 ; s_(i+1) += carry ; s_i -= carry << 21
     Fold k c0..c5   s_(k-12+m) += s_k * c_m  (m = 0..5) ; s_k = 0
   Gen/Ref10Sc.v is generated from the Go source (translate/sc2coq.py) in these terms. *)
From Coq Require Import ZArith List Bool Lia.
Import ListNotations.
Open Scope Z_scope.

Inductive op : Type :=
| Carry (i : nat) (rounded : bool)
| Fold (k : nat) (cs : list Z).

(* the group order of edwards25519 *)
Definition ell : Z := 2 ^ 252 + 27742317777372353535851937790883648493.

Definition get (l : list Z) (i : nat) : Z := nth i l 0.

Fixpoint set (l : list Z) (i : nat) (v : Z) : list Z :=
  match l, i with
  | [], _ => []
  | _ :: t, O => v :: t
  | x :: t, S i' => x :: set t i' v
  end.

Definition addto (l : list Z) (i : nat) (d : Z) : list Z := set l i (get l i + d).

Fixpoint addmany (l : list Z) (base : nat) (x : Z) (cs : list Z) : list Z :=
  match cs with
  | [] => l
  | c :: r => addmany (addto l base (x * c)) (S base) x r
  end.

Definition step (l : list Z) (o : op) : list Z :=
  match o with
  | Carry i r =>
      let c := (get l i + (if r then 2 ^ 20 else 0)) / 2 ^ 21 in     (* arithmetic shift = floor *)
      addto (addto l (S i) c) i (- (c * 2 ^ 21))
  | Fold k cs =>
      let x := get l k in
      addto (addmany l (k - 12) x cs) k (- x)
  end.

Definition run (ops : list op) (l : list Z) : list Z := fold_left step ops l.

(* the integer a limb vector stands for *)
Fixpoint val_from (i : nat) (l : list Z) : Z :=
  match l with [] => 0 | x :: t => x * 2 ^ (21 * Z.of_nat i) + val_from (S i) t end.

Definition value (l : list Z) : Z := val_from 0 l.

Fixpoint poly (i : nat) (cs : list Z) : Z :=
  match cs with [] => 0 | c :: r => c * 2 ^ (21 * Z.of_nat i) + poly (S i) r end.

(* the six constants of a fold express 2^252 modulo the group order *)
Definition fold_ok (cs : list Z) : bool :=
  (Nat.eqb (length cs) 6) && ((poly 0 cs - 2 ^ 252) mod ell =? 0).

Definition op_ok (n : nat) (o : op) : bool :=
  match o with
  | Carry i _ => Nat.ltb (S i) n
  | Fold k cs => Nat.leb 12 k && Nat.ltb k n && fold_ok cs
  end.

(* ---------------------------------------------------------------- the initial limb vector *)

(* a summand of an initial limb: a constant, +-(limb i of operand v), +-(a_i * b_j);
   operands: 0 = a, 1 = b, 2 = c, 3 = s (the 64-byte input of scReduce) *)
Inductive term : Type :=
| TK (z : Z)
| TV (neg : bool) (v : nat) (i : nat)
| TP (neg : bool) (i j : nat).

Definition sgn (neg : bool) (z : Z) : Z := if neg then - z else z.

Definition eval_term (opnd : nat -> nat -> Z) (t : term) : Z :=
  match t with
  | TK z => z
  | TV n v i => sgn n (opnd v i)
  | TP n i j => sgn n (opnd 0%nat i * opnd 1%nat j)
  end.

Definition eval_limb (opnd : nat -> nat -> Z) (ts : list term) : Z :=
  fold_right (fun t acc => eval_term opnd t + acc) 0 ts.

Definition eval_init (opnd : nat -> nat -> Z) (init : list (list term)) : list Z := map (eval_limb opnd) init.

(* ---------------------------------------------------------------- operand limbs *)

(* limb i of a little-endian integer: 21 bits from bit 21 i; the top limb takes what is left *)
Definition limb (x : Z) (i : Z) : Z := (x / 2 ^ (21 * i)) mod 2 ^ 21.
Definition top_limb (x : Z) (i : Z) : Z := x / 2 ^ (21 * i).

(* ---------------------------------------------------------------- intervals (no int64 overflow) *)

Definition ival := (Z * Z)%type.

Definition iadd (a b : ival) : ival := (fst a + fst b, snd a + snd b).
Definition iscale (a : ival) (c : Z) : ival :=
  if 0 <=? c then (fst a * c, snd a * c) else (snd a * c, fst a * c).
Definition ineg (a : ival) : ival := (- snd a, - fst a).
Definition ifits (a : ival) : bool := (- 2 ^ 63 <=? fst a) && (snd a <? 2 ^ 63).

Definition imul (a b : ival) : ival :=
  let p1 := fst a * fst b in let p2 := fst a * snd b in let p3 := snd a * fst b in let p4 := snd a * snd b in
  (Z.min (Z.min p1 p2) (Z.min p3 p4), Z.max (Z.max p1 p2) (Z.max p3 p4)).

Definition isgn (neg : bool) (a : ival) : ival := if neg then ineg a else a.

Definition ival_term (bound : nat -> nat -> ival) (t : term) : ival :=
  match t with
  | TK z => (z, z)
  | TV n v i => isgn n (bound v i)
  | TP n i j => isgn n (imul (bound 0%nat i) (bound 1%nat j))
  end.

(* magnitude of an interval; the summands of one limb: if the magnitudes add up to less than 2^63
   every partial sum, in whatever order Go adds them, stays in range *)
Definition imag (a : ival) : Z := Z.max (Z.abs (fst a)) (Z.abs (snd a)).

Fixpoint ival_limb_acc (bound : nat -> nat -> ival) (ts : list term) : ival * Z :=
  match ts with
  | [] => ((0, 0), 0)
  | t :: r =>
      let x := ival_term bound t in
      let acc := ival_limb_acc bound r in
      (iadd x (fst acc), imag x + snd acc)
  end.

Definition ival_limb (bound : nat -> nat -> ival) (ts : list term) : option ival :=
  let r := ival_limb_acc bound ts in
  if snd r <? 2 ^ 63 then Some (fst r) else None.

Fixpoint ival_init (bound : nat -> nat -> ival) (init : list (list term)) : option (list ival) :=
  match init with
  | [] => Some []
  | ts :: r =>
      match ival_limb bound ts, ival_init bound r with
      | Some x, Some l => Some (x :: l)
      | _, _ => None
      end
  end.

Definition iget (l : list ival) (i : nat) : ival := nth i l (0, 0).

Fixpoint iset (l : list ival) (i : nat) (v : ival) : list ival :=
  match l, i with
  | [], _ => []
  | _ :: t, O => v :: t
  | x :: t, S i' => x :: iset t i' v
  end.

Fixpoint iaddmany (l : list ival) (base : nat) (x : ival) (cs : list Z) : option (list ival) :=
  match cs with
  | [] => Some l
  | c :: r =>
      let p := iscale x c in
      let s := iadd (iget l base) p in
      if ifits p && ifits s then iaddmany (iset l base s) (S base) x r else None
  end.

(* abstract step: None = some intermediate value may leave the int64 range *)
Definition istep (l : list ival) (o : op) : option (list ival) :=
  match o with
  | Carry i r =>
      let s := iget l i in
      let t := if r then iadd s (2 ^ 20, 2 ^ 20) else s in
      let c := (fst t / 2 ^ 21, snd t / 2 ^ 21) in
      let n := iadd (iget l (S i)) c in
      let sh := iscale c (2 ^ 21) in
      if ifits t && ifits n && ifits sh
      then Some (iset (iset l (S i) n) i (if r then (- 2 ^ 20, 2 ^ 20 - 1) else (0, 2 ^ 21 - 1)))
      else None
  | Fold k cs =>
      match iaddmany l (k - 12) (iget l k) cs with
      | Some l' => Some (iset l' k (0, 0))
      | None => None
      end
  end.

Fixpoint irun (ops : list op) (l : list ival) : option (list ival) :=
  match ops with
  | [] => Some l
  | o :: r => match istep l o with Some l' => irun r l' | None => None end
  end.
