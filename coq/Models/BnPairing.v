(* BnPairing.v -- port of gfp6.go, gfp12.go and optate.go (value level): the tower
   F_p^2 -> F_p^6 = F_p^2[tau]/(tau^3 - xi) -> F_p^12 = F_p^6[omega]/(omega^2 - tau), xi = i + 9,
   the Miller loop of the optimal ate pairing, the final exponentiation and PairingCheck.
   No theorem about bilinearity is proved here (DESIGN.md: imported mathematics); the port exists
   so that the model RUNS the pairing of the code and can be compared with it and with the EVM
   precompile on the same inputs. *)
From Coq Require Import ZArith List Bool.
From DosVerif Require Import Base.Val Base.Field Gen.BnConsts Models.Bn.
Import ListNotations.
Local Open Scope Z_scope.

Notation "a +2 b" := (fp2_add fp_ops a b) (at level 50, left associativity).
Notation "a -2 b" := (fp2_sub fp_ops a b) (at level 50, left associativity).
Notation "a *2 b" := (fp2_mul fp_ops a b) (at level 40, left associativity).

Definition fp2_zero : Fp2 := f0 fp2o.
Definition fp2_one : Fp2 := f1 fp2o.
Definition fp2_sq (a : Fp2) : Fp2 := fp2_square fp_ops a.
Definition fp2_ng (a : Fp2) : Fp2 := fp2_neg fp_ops a.
Definition fp2_conj (a : Fp2) : Fp2 := mkfp2 (fopp fp_ops (c1 a)) (c0 a).
Definition fp2_muls (a : Fp2) (b : Fp) : Fp2 := mkfp2 (fmul fp_ops (c1 a) b) (fmul fp_ops (c0 a) b).
(* gfP2.MulXi: (xi+y)(i+9) = (9x+y)i + (9y-x) *)
Definition fp2_mulxi (a : Fp2) : Fp2 :=
  let nine v := let t := fadd fp_ops v v in let t := fadd fp_ops t t in let t := fadd fp_ops t t in fadd fp_ops t v in
  mkfp2 (fadd fp_ops (nine (c1 a)) (c0 a)) (fsub fp_ops (nine (c0 a)) (c1 a)).
Definition fp2_is_zero (a : Fp2) : bool := fp2_eqb fp_ops a fp2_zero.
Definition fp2_is_one (a : Fp2) : bool := fp2_eqb fp_ops a fp2_one.

Definition k2 (v : Z * Z) : Fp2 := mkfp2 (fp_of (fst v)) (fp_of (snd v)).
Definition xiToPMinus1Over6 := k2 src_xiToPMinus1Over6.
Definition xiToPMinus1Over3 := k2 src_xiToPMinus1Over3.
Definition xiToPMinus1Over2 := k2 src_xiToPMinus1Over2.
Definition xiTo2PMinus2Over3 := k2 src_xiTo2PMinus2Over3.
Definition xiToPSquaredMinus1Over3 := fp_of src_xiToPSquaredMinus1Over3.
Definition xiTo2PSquaredMinus2Over3 := fp_of src_xiTo2PSquaredMinus2Over3.
Definition xiToPSquaredMinus1Over6 := fp_of src_xiToPSquaredMinus1Over6.

(* ---------------------------------------------------------------- F_p^6: x tau^2 + y tau + z *)
Record fp6 : Type := mkfp6 { sx : Fp2; sy : Fp2; sz : Fp2 }.
Definition fp6_zero := mkfp6 fp2_zero fp2_zero fp2_zero.
Definition fp6_one := mkfp6 fp2_zero fp2_zero fp2_one.
Definition fp6_is_zero a := fp2_is_zero (sx a) && fp2_is_zero (sy a) && fp2_is_zero (sz a).
Definition fp6_is_one a := fp2_is_zero (sx a) && fp2_is_zero (sy a) && fp2_is_one (sz a).
Definition fp6_neg a := mkfp6 (fp2_ng (sx a)) (fp2_ng (sy a)) (fp2_ng (sz a)).
Definition fp6_add a b := mkfp6 (sx a +2 sx b) (sy a +2 sy b) (sz a +2 sz b).
Definition fp6_sub a b := mkfp6 (sx a -2 sx b) (sy a -2 sy b) (sz a -2 sz b).
Definition fp6_frobenius a :=
  mkfp6 (fp2_conj (sx a) *2 xiTo2PMinus2Over3) (fp2_conj (sy a) *2 xiToPMinus1Over3) (fp2_conj (sz a)).
Definition fp6_frobenius_p2 a :=
  mkfp6 (fp2_muls (sx a) xiTo2PSquaredMinus2Over3) (fp2_muls (sy a) xiToPSquaredMinus1Over3) (sz a).
Definition fp6_mul a b :=
  let v0 := sz a *2 sz b in
  let v1 := sy a *2 sy b in
  let v2 := sx a *2 sx b in
  let tz := fp2_mulxi (((sx a +2 sy a) *2 (sx b +2 sy b)) -2 v1 -2 v2) +2 v0 in
  let ty := (((sy a +2 sz a) *2 (sy b +2 sz b)) -2 v0 -2 v1) +2 fp2_mulxi v2 in
  let tx := (((sx a +2 sz a) *2 (sx b +2 sz b)) -2 v0 +2 v1) -2 v2 in
  mkfp6 tx ty tz.
Definition fp6_mul_scalar a (b : Fp2) := mkfp6 (sx a *2 b) (sy a *2 b) (sz a *2 b).
Definition fp6_mul_gfp a (b : Fp) := mkfp6 (fp2_muls (sx a) b) (fp2_muls (sy a) b) (fp2_muls (sz a) b).
Definition fp6_mul_tau a := mkfp6 (sy a) (sz a) (fp2_mulxi (sx a)).
Definition fp6_square a :=
  let v0 := fp2_sq (sz a) in
  let v1 := fp2_sq (sy a) in
  let v2 := fp2_sq (sx a) in
  let c0' := fp2_mulxi ((fp2_sq (sx a +2 sy a)) -2 v1 -2 v2) +2 v0 in
  let c1' := ((fp2_sq (sy a +2 sz a)) -2 v0 -2 v1) +2 fp2_mulxi v2 in
  let c2' := ((fp2_sq (sx a +2 sz a)) -2 v0 +2 v1) -2 v2 in
  mkfp6 c2' c1' c0'.
Definition fp6_invert a :=
  let t1 := fp2_mulxi (sx a *2 sy a) in
  let A := fp2_sq (sz a) -2 t1 in
  let B := fp2_mulxi (fp2_sq (sx a)) -2 (sy a *2 sz a) in
  let C := fp2_sq (sy a) -2 (sx a *2 sz a) in
  let F := fp2_mulxi (C *2 sy a) +2 (A *2 sz a) +2 fp2_mulxi (B *2 sx a) in
  let Fi := fp2_inv fp_ops F in
  mkfp6 (C *2 Fi) (B *2 Fi) (A *2 Fi).

(* ---------------------------------------------------------------- F_p^12: x omega + y *)
Record fp12 : Type := mkfp12 { tx : fp6; ty : fp6 }.
Definition fp12_one := mkfp12 fp6_zero fp6_one.
Definition fp12_is_one a := fp6_is_zero (tx a) && fp6_is_one (ty a).
Definition fp12_conj a := mkfp12 (fp6_neg (tx a)) (ty a).
Definition fp12_frobenius a :=
  mkfp12 (fp6_mul_scalar (fp6_frobenius (tx a)) xiToPMinus1Over6) (fp6_frobenius (ty a)).
Definition fp12_frobenius_p2 a :=
  mkfp12 (fp6_mul_gfp (fp6_frobenius_p2 (tx a)) xiToPSquaredMinus1Over6) (fp6_frobenius_p2 (ty a)).
Definition fp12_mul a b :=
  let x := fp6_add (fp6_mul (tx a) (ty b)) (fp6_mul (tx b) (ty a)) in
  let y := fp6_add (fp6_mul (ty a) (ty b)) (fp6_mul_tau (fp6_mul (tx a) (tx b))) in
  mkfp12 x y.
Definition fp12_square a :=
  let v0 := fp6_mul (tx a) (ty a) in
  let t := fp6_add (ty a) (fp6_mul_tau (tx a)) in
  let y := fp6_sub (fp6_sub (fp6_mul (fp6_add (tx a) (ty a)) t) v0) (fp6_mul_tau v0) in
  mkfp12 (fp6_add v0 v0) y.
Definition fp12_invert a :=
  let t1 := fp6_sub (fp6_square (ty a)) (fp6_mul_tau (fp6_square (tx a))) in
  let t2 := fp6_invert t1 in
  mkfp12 (fp6_mul (fp6_neg (tx a)) t2) (fp6_mul (ty a) t2).
(* Exp: for i := BitLen-1 down to 0 *)
Fixpoint fp12_exp_bits (a : fp12) (bits : list bool) (sum : fp12) : fp12 :=
  match bits with
  | [] => sum
  | b :: rest => let t := fp12_square sum in fp12_exp_bits a rest (if b then fp12_mul t a else t)
  end.
Definition fp12_exp (a : fp12) (k : Z) : fp12 :=
  fp12_exp_bits a (match k with Zpos p => pos_bits p [] | _ => [] end) fp12_one.

(* ---------------------------------------------------------------- optimal ate *)
(* a twist point with its cached t = z^2 *)
Record tpt : Type := mktpt { px : Fp2; py : Fp2; pz : Fp2; pt : Fp2 }.

Definition line_add (r p : tpt) (qx qy : Fp) (r2 : Fp2) : Fp2 * Fp2 * Fp2 * tpt :=
  let B := px p *2 pt r in
  let D := py p +2 pz r in
  let D := ((fp2_sq D -2 r2) -2 pt r) *2 pt r in
  let H := B -2 px r in
  let I := fp2_sq H in
  let E := I +2 I in
  let E := E +2 E in
  let J := H *2 E in
  let L1 := (D -2 py r) -2 py r in
  let V := px r *2 E in
  let ox := ((fp2_sq L1 -2 J) -2 V) -2 V in
  let oz := (fp2_sq (pz r +2 H) -2 pt r) -2 I in
  let t := (V -2 ox) *2 L1 in
  let t2 := py r *2 J in
  let t2 := t2 +2 t2 in
  let oy := t -2 t2 in
  let ot := fp2_sq oz in
  let t := (fp2_sq (py p +2 oz) -2 r2) -2 ot in
  let t2 := L1 *2 px p in
  let t2 := t2 +2 t2 in
  let a := t2 -2 t in
  let c := fp2_muls oz qy in
  let c := c +2 c in
  let b := fp2_muls (fp2_ng L1) qx in
  let b := b +2 b in
  (a, b, c, mktpt ox oy oz ot).

Definition line_double (r : tpt) (qx qy : Fp) : Fp2 * Fp2 * Fp2 * tpt :=
  let A := fp2_sq (px r) in
  let B := fp2_sq (py r) in
  let C := fp2_sq B in
  let D := px r +2 B in
  let D := (fp2_sq D -2 A) -2 C in
  let D := D +2 D in
  let E := (A +2 A) +2 A in
  let G := fp2_sq E in
  let ox := (G -2 D) -2 D in
  let oz := (fp2_sq (py r +2 pz r) -2 B) -2 pt r in
  let oy := (D -2 ox) *2 E in
  let t := C +2 C in
  let t := t +2 t in
  let t := t +2 t in
  let oy := oy -2 t in
  let ot := fp2_sq oz in
  let t := E *2 pt r in
  let t := t +2 t in
  let b := fp2_muls (fp2_ng t) qx in
  let a := ((fp2_sq (px r +2 E)) -2 A) -2 G in
  let t := B +2 B in
  let t := t +2 t in
  let a := a -2 t in
  let c := oz *2 pt r in
  let c := fp2_muls (c +2 c) qy in
  (a, b, c, mktpt ox oy oz ot).

Definition mul_line (ret : fp12) (a b c : Fp2) : fp12 :=
  let a2 := fp6_mul (mkfp6 fp2_zero a b) (tx ret) in
  let t3 := fp6_mul_scalar (ty ret) c in
  let t := b +2 c in
  let t2 := mkfp6 fp2_zero a t in
  let rx := fp6_add (tx ret) (ty ret) in
  let ry := t3 in
  let rx := fp6_sub (fp6_sub (fp6_mul rx t2) a2) ry in
  let a2 := fp6_mul_tau a2 in
  mkfp12 rx (fp6_add ry a2).

(* miller: q a twist point as it is stored (x, y, z and the cached t), p an affine curve point.
   Before the repair (fix: 8febd15) MakeAffine left a point with z = 1 untouched, including a cached
   t that Neg had reset to zero. *)
Definition tpt_make_affine (a : tpt) : tpt :=
  if fp2_is_one (pz a) then mktpt (px a) (py a) (pz a) fp2_one   (* repaired: the cached z^2 is restored *)
  else if fp2_is_zero (pz a) then mktpt fp2_zero fp2_one (pz a) fp2_zero
  else
    let zInv := fp2_inv fp_ops (pz a) in
    let t := py a *2 zInv in
    let zInv2 := fp2_sq zInv in
    mktpt (px a *2 zInv2) (t *2 zInv2) fp2_one fp2_one.

Fixpoint miller_loop (naf : list Z) (first : bool) (ret : fp12) (r aAff minusA : tpt) (qx qy : Fp) (r2 : Fp2)
  : fp12 * tpt :=
  match naf with
  | [] => (ret, r)
  | d :: rest =>
    let '(a, b, c, newR) := line_double r qx qy in
    let ret := if first then ret else fp12_square ret in
    let ret := mul_line ret a b c in
    let r := newR in
    if d =? 1 then
      let '(a, b, c, newR) := line_add r aAff qx qy r2 in
      miller_loop rest false (mul_line ret a b c) newR aAff minusA qx qy r2
    else if d =? -1 then
      let '(a, b, c, newR) := line_add r minusA qx qy r2 in
      miller_loop rest false (mul_line ret a b c) newR aAff minusA qx qy r2
    else miller_loop rest false ret r aAff minusA qx qy r2
  end.

Definition miller (q : tpt) (pxy : Fp * Fp) : fp12 :=
  let aAff := tpt_make_affine q in
  let '(qx, qy) := pxy in
  let minusA := mktpt (px aAff) (fp2_ng (py aAff)) (pz aAff) fp2_zero in
  let r2 := fp2_sq (py aAff) in
  (* for i := len-1 down to 1: digit naf[i-1]; i.e. the reversed list without its first element *)
  let digits := tl (rev src_naf) in
  let '(ret, r) := miller_loop digits true fp12_one aAff aAff minusA qx qy r2 in
  let q1 := mktpt (fp2_conj (px aAff) *2 xiToPMinus1Over3) (fp2_conj (py aAff) *2 xiToPMinus1Over2) fp2_one fp2_one in
  let minusQ2 := mktpt (fp2_muls (px aAff) xiToPSquaredMinus1Over3) (py aAff) fp2_one fp2_one in
  let '(a, b, c, newR) := line_add r q1 qx qy (fp2_sq (py q1)) in
  let ret := mul_line ret a b c in
  let '(a, b, c, _) := line_add newR minusQ2 qx qy (fp2_sq (py minusQ2)) in
  mul_line ret a b c.

Definition final_exponentiation (inp : fp12) : fp12 :=
  let t1 := mkfp12 (fp6_neg (tx inp)) (ty inp) in
  let inv := fp12_invert inp in
  let t1 := fp12_mul t1 inv in
  let t2 := fp12_frobenius_p2 t1 in
  let t1 := fp12_mul t1 t2 in
  let fp := fp12_frobenius t1 in
  let fp2' := fp12_frobenius_p2 t1 in
  let fp3 := fp12_frobenius fp2' in
  let fu := fp12_exp t1 src_u in
  let fu2 := fp12_exp fu src_u in
  let fu3 := fp12_exp fu2 src_u in
  let y3 := fp12_frobenius fu in
  let fu2p := fp12_frobenius fu2 in
  let fu3p := fp12_frobenius fu3 in
  let y2 := fp12_frobenius_p2 fu2 in
  let y0 := fp12_mul (fp12_mul fp fp2') fp3 in
  let y1 := fp12_conj t1 in
  let y5 := fp12_conj fu2 in
  let y3 := fp12_conj y3 in
  let y4 := fp12_conj (fp12_mul fu fu2p) in
  let y6 := fp12_conj (fp12_mul fu3 fu3p) in
  let t0 := fp12_mul (fp12_mul (fp12_square y6) y4) y5 in
  let t1 := fp12_mul (fp12_mul y3 y5) t0 in
  let t0 := fp12_mul t0 y2 in
  let t1 := fp12_square (fp12_mul (fp12_square t1) t0) in
  let t0 := fp12_mul t1 y1 in
  let t1 := fp12_mul t1 y0 in
  fp12_mul (fp12_square t0) t1.

(* the twist point as the group code hands it to miller: Jacobian coordinates plus cached t.
   Points produced by Add/Double/Mul/Unmarshal/Base are passed with t as the code leaves it;
   the model entry supplies it explicitly. *)
Definition tpt_of_jac (a : jac (K:=Fp2)) (t : Fp2) : tpt := mktpt (jx a) (jy a) (jz a) t.

(* pointGT.PairingCheck: pairs with an identity member are skipped *)
Fixpoint pairing_acc (pairs : list (jac (K:=Fp) * tpt)) (acc : fp12) : fp12 :=
  match pairs with
  | [] => acc
  | (a, b) :: rest =>
    if is_inf fp_ops a || fp2_is_zero (pz b) then pairing_acc rest acc
    else let a' := make_affine fp_ops a in
         pairing_acc rest (fp12_mul acc (miller b (jx a', jy a')))
  end.

Definition pairing_check (pairs : list (jac (K:=Fp) * tpt)) : bool :=
  fp12_is_one (final_exponentiation (pairing_acc pairs fp12_one)).

Definition optimal_ate (b : tpt) (a : jac (K:=Fp)) : fp12 :=
  if is_inf fp_ops a || fp2_is_zero (pz b) then fp12_one
  else let a' := make_affine fp_ops a in final_exponentiation (miller b (jx a', jy a')).

(* GT marshal: the 12 coordinates x.x.x, x.x.y, x.y.x, ... as in pointGT.MarshalBinary *)
Definition fp12_marshal (e : fp12) : list N :=
  let w (v : Fp) := be_bytes 32 (zv v) in
  let w2 (v : Fp2) := w (c1 v) ++ w (c0 v) in
  let w6 (v : fp6) := w2 (sx v) ++ w2 (sy v) ++ w2 (sz v) in
  w6 (tx e) ++ w6 (ty e).
