(* P2PRecv.v -- the receive side of one p2p connection (/repo/p2p/client.go readPipe ->
   decryptPipe -> decodePipe -> dispatch -> server.messageDispatch), over symbolic cryptography:

     a wire frame is either the output of [seal] under a key for a plaintext, or anything else
       (altered, truncated, fabricated without the key): AEAD integrity, i.e. [open k f] succeeds
       only on frames sealed under k, is built into the representation (hypothesis recorded in
       the trusted base; note: the code uses one static nonce per connection, so the same plaintext
       seals to the same frame -- an exact replay of a frame is a frame "sealed under k");
     a signature is the pair (signing key, signed payload): BLS unforgeability likewise.

   The pipeline reports the first undecryptable / undecodable / badly signed frame on the
   client's error channel; client.run returns on any reported error and the server then closes the
   connection.  Closing is asynchronous: how many of the following frames are still processed is
   not determined -- [recv_b] takes that number as the parameter [budget]. *)
From Coq Require Import ZArith List Bool Lia.
From DosVerif Require Import Base.Val.
Import ListNotations.
Open Scope Z_scope.

Record payload : Type := mkpayload { p_type : Z; p_body : Z }.      (* message type, content id *)

Definition payload_eqb (a b : payload) : bool := (p_type a =? p_type b) && (p_body a =? p_body b).

Record package : Type := mkpkg {
  k_any : option payload;        (* the Anything field *)
  k_known : bool;                (* its type URL is registered and the body parses *)
  k_sig : option (Z * payload);  (* signature = (signing key, signed payload) *)
  k_nonce : Z;
  k_reply : bool
}.

Inductive plain : Type := PPkg (k : package) | PGarbage.   (* PGarbage: not a protobuf Package *)

Inductive frame : Type :=
| FSealed (key : Z) (p : plain)
| FJunk.

Definition open (key : Z) (f : frame) : option plain :=
  match f with
  | FSealed k p => if k =? key then Some p else None
  | FJunk => None
  end.

Definition sig_ok (peer : Z) (k : package) (v : payload) : bool :=
  match k_sig k with
  | Some (sk, sv) => (sk =? peer) && payload_eqb sv v
  | None => false
  end.

Inductive outcome : Type :=
| ODeliver (m : payload)                 (* handed to the subscriber of its type *)
| OReply (nonce : Z) (m : payload)       (* handed to the request table as a reply *)
| OError.                                (* reported: the connection is being closed *)

(* decryptPipe + decodeBytes + decodePipe for one frame; [key] the session key, [peer] the key the
   remote endpoint presented in the handshake *)
Definition recv_frame (key peer : Z) (f : frame) : outcome :=
  match open key f with
  | None => OError
  | Some PGarbage => OError
  | Some (PPkg k) =>
      match k_any k with
      | None => OError
      | Some v =>
          if negb (sig_ok peer k v) then OError
          else if negb (k_known k) then OError
          else if k_reply k then OReply (k_nonce k) v else ODeliver v
      end
  end.

(* frames are processed in order; after the first error [budget] further frames are still
   handled before the connection is gone *)
Fixpoint recv_b (key peer : Z) (budget : nat) (failed : bool) (left : nat) (fs : list frame) : list outcome :=
  match fs with
  | [] => []
  | f :: rest =>
      if failed && Nat.eqb left 0 then []
      else
        let o := recv_frame key peer f in
        let left' := if failed then Nat.pred left else budget in
        let failed' := failed || match o with OError => true | _ => false end in
        o :: recv_b key peer budget failed' left' rest
  end.

Definition deliveries (os : list outcome) : list payload :=
  flat_map (fun o => match o with ODeliver m => [m] | _ => [] end) os.

(* what the honest remote endpoint puts on the wire for message m *)
Definition honest_frame (key peer : Z) (m : payload) (nonce : Z) (reply : bool) : frame :=
  FSealed key (PPkg (mkpkg (Some m) true (Some (peer, m)) nonce reply)).

(* messageDispatch: the subscriber of a type gets the deliveries of that type *)
Definition to_subscriber (t : Z) (ms : list payload) : list payload :=
  filter (fun m => p_type m =? t) ms.

(* ---------------------------------------------------------------- entry point *)

Definition val_z (v : val) : Z := match v with VZ z => z | _ => 0 end.

Definition val_payload (v : val) : option payload :=
  match v with VL [VZ t; VZ b] => Some (mkpayload t b) | _ => None end.

Definition val_frame (v : val) : frame :=
  match v with
  | VL [VZ 0] => FJunk
  | VL [VZ 1; VZ key] => FSealed key PGarbage
  | VL [VZ 2; VZ key; any; VZ known; sg; VZ nonce; VZ reply] =>
      FSealed key (PPkg (mkpkg (val_payload any) (negb (known =? 0))
                               (match sg with VL [VZ sk; sv] => match val_payload sv with Some p => Some (sk, p) | None => None end | _ => None end)
                               nonce (negb (reply =? 0))))
  | _ => FJunk
  end.

Definition outcome_val (o : outcome) : val :=
  match o with
  | ODeliver m => VL [VZ 1; VZ (p_type m); VZ (p_body m)]
  | OReply n m => VL [VZ 2; VZ n; VZ (p_type m); VZ (p_body m)]
  | OError => VErr
  end.

(* op 1: ( key peer frames ) -> the outcomes up to and including the first error *)
Definition entry_p2precv (op : Z) (args : list val) : val :=
  match op, args with
  | 1, [VZ key; VZ peer; VL fs] =>
      VL (map outcome_val (recv_b key peer 0 false 0 (map val_frame fs)))
  | _, _ => VErr
  end.
