(* Pipes.v -- goroutine networks: the concurrency skeleton of the key-generation and query
   pipelines (share/dkg/pedersen/pdkg_pipes.go, pdkg.go, dosnode/dos_stages.go,
   dos_query_handler.go, dos_chain_handler.go, utils/utils.go).

   A process is the control-flow graph of one `go func(){...}` body in which data has been
   abstracted away: what remains is every channel operation, close, WaitGroup operation, cancel
   call, and the branching structure (internal choices are nondeterministic, so the model has
   every behaviour of the code and more).  Deferred calls are compiled onto every exit path by
   the translator (translate/skel), which also emits the certificates checked here:
     prank  rank of the process in the wait-for order
     rk     ranking of its nodes for the steps possible after cancellation
     must / may  events (closed c, wg.Done w, passed wg.Wait w) certainly / possibly performed
                 when control is at a node.
   The semantics is an interleaving transition system over the whole network with unbuffered
   and buffered channels, WaitGroups (as the set of members that have not called Done yet; a
   Done by a non-member or a second Done is an error state, so the set is the counter), a
   cancellation flag raised by the root's cancel() or by the deadline timer at any moment.

   [gstep false] is the full semantics (Go's select may take any ready arm).  [gstep true] is
   the same except that after cancellation a select that has a ctx.Done arm takes that arm:
   the scheduling assumption under which termination is stated (Go chooses uniformly among
   ready arms, so a ready Done arm is taken after finitely many rounds with probability 1). *)
From Coq Require Import List Arith Bool Lia PeanoNat.
Import ListNotations.

Definition chan := nat.
Definition wgid := nat.
Definition pid := nat.

Inductive event : Type := EClosed (c : chan) | EDone (w : wgid) | EWaited (w : wgid).

Definition event_eqb (a b : event) : bool :=
  match a, b with
  | EClosed c, EClosed d => c =? d
  | EDone w, EDone v => w =? v
  | EWaited w, EWaited v => w =? v
  | _, _ => false
  end.

Inductive arm : Type :=
| ARecv (c : chan) (kv kc : nat)          (* v, ok := <-c : next node on a value / when closed *)
| ASend (c : chan) (k : nat).

Inductive node : Type :=
| NSel (arms : list arm) (done : option nat) (dflt : option nat)
| NTau (succs : list nat)                 (* computation, opaque calls, data-dependent branches *)
| NClose (c : chan) (k : nat)
| NWgDone (w : wgid) (k : nat)
| NWgWait (w : wgid) (k : nat)
| NCancel (k : nat)
| NLoop (kbody kexit : nat)               (* a loop over finite data: ctr more iterations at most *)
| NExit.

Record proc : Type := mkproc {
  code : list node;
  prank : nat;
  rk : list nat;
  must : list (list event);
  may : list (list event)
}.

Definition dummy_proc : proc := mkproc [] 0 [] [] [].

Record net : Type := mknet {
  procs : list proc;
  caps : list nat;                        (* channel capacities (0 = unbuffered) *)
  closers : list (option pid);            (* the one process that closes the channel, if any *)
  owed : list bool;                       (* the closer must have closed it when it exits *)
  wgs : list (list pid);                  (* WaitGroup members = initial counter *)
  wgfor : list (option wgid);             (* fan-in channel: its senders are the members of this
                                             group, its closer waits for the group first *)
  rkbound : nat
}.

Section Semantics.
Variable N : net.

Definition P (p : pid) : proc := nth p (procs N) dummy_proc.
Definition node_at (p : pid) (pc : nat) : node := nth pc (code (P p)) NExit.
Definition rk_at (p : pid) (pc : nat) : nat := nth pc (rk (P p)) 0.
Definition must_at (p : pid) (pc : nat) : list event := nth pc (must (P p)) [].
Definition may_at (p : pid) (pc : nat) : list event := nth pc (may (P p)) [].
Definition cap (c : chan) : nat := nth c (caps N) 0.
Definition closer (c : chan) : option pid := nth c (closers N) None.
Definition owes (c : chan) : bool := nth c (owed N) false.
Definition members (w : wgid) : list pid := nth w (wgs N) [].
Definition wg_for (c : chan) : option wgid := nth c (wgfor N) None.

Record st : Type := mkst {
  pcs : pid -> nat;
  ctrs : pid -> nat;
  hist : pid -> list event;
  closed : chan -> bool;
  buf : chan -> nat;
  pending : wgid -> list pid;
  cancelled : bool
}.

Definition upd {A} (f : nat -> A) (k : nat) (v : A) : nat -> A :=
  fun j => if j =? k then v else f j.

Definition node_of (s : st) (p : pid) : node := node_at p (pcs s p).

Definition init (ctr0 : pid -> nat) : st :=
  mkst (fun _ => 0) ctr0 (fun _ => []) (fun _ => false) (fun _ => 0) members false.

Definition move (s : st) (p : pid) (k : nat) : st :=
  mkst (upd (pcs s) p k) (ctrs s) (hist s) (closed s) (buf s) (pending s) (cancelled s).

Definition remove_pid (p : pid) (l : list pid) : list pid := filter (fun q => negb (q =? p)) l.

(* the select at p may take an arm other than ctx.Done *)
Definition arm_allowed (prio : bool) (s : st) (dn : option nat) : Prop :=
  prio = true -> cancelled s = true -> dn = None.

Inductive gstep (prio : bool) : st -> st -> Prop :=
| s_tau s p succs k :
    node_of s p = NTau succs -> In k succs -> gstep prio s (move s p k)
| s_close s p c k :
    node_of s p = NClose c k -> closed s c = false ->
    gstep prio s (mkst (upd (pcs s) p k) (ctrs s) (upd (hist s) p (EClosed c :: hist s p))
                       (upd (closed s) c true) (buf s) (pending s) (cancelled s))
| s_wgdone s p w k :
    node_of s p = NWgDone w k -> In p (pending s w) ->
    gstep prio s (mkst (upd (pcs s) p k) (ctrs s) (upd (hist s) p (EDone w :: hist s p))
                       (closed s) (buf s) (upd (pending s) w (remove_pid p (pending s w))) (cancelled s))
| s_wgwait s p w k :
    node_of s p = NWgWait w k -> pending s w = [] ->
    gstep prio s (mkst (upd (pcs s) p k) (ctrs s) (upd (hist s) p (EWaited w :: hist s p))
                       (closed s) (buf s) (pending s) (cancelled s))
| s_cancel s p k :
    node_of s p = NCancel k ->
    gstep prio s (mkst (upd (pcs s) p k) (ctrs s) (hist s) (closed s) (buf s) (pending s) true)
| s_timer s :
    cancelled s = false ->
    gstep prio s (mkst (pcs s) (ctrs s) (hist s) (closed s) (buf s) (pending s) true)
| s_loop_exit s p kb ke :
    node_of s p = NLoop kb ke -> gstep prio s (move s p ke)
| s_loop_enter s p kb ke n :
    node_of s p = NLoop kb ke -> ctrs s p = S n ->
    gstep prio s (mkst (upd (pcs s) p kb) (upd (ctrs s) p n) (hist s) (closed s) (buf s) (pending s) (cancelled s))
| s_done s p arms d df :
    node_of s p = NSel arms (Some d) df -> cancelled s = true -> gstep prio s (move s p d)
| s_default s p arms dn df :
    node_of s p = NSel arms dn (Some df) -> arm_allowed prio s dn -> gstep prio s (move s p df)
| s_sync s p q c k kv kc armsp dnp dfp armsq dnq dfq :
    p <> q ->
    node_of s p = NSel armsp dnp dfp -> In (ASend c k) armsp -> arm_allowed prio s dnp ->
    node_of s q = NSel armsq dnq dfq -> In (ARecv c kv kc) armsq -> arm_allowed prio s dnq ->
    cap c = 0 -> closed s c = false ->
    gstep prio s (mkst (upd (upd (pcs s) p k) q kv) (ctrs s) (hist s) (closed s) (buf s) (pending s) (cancelled s))
| s_bufsend s p c k arms dn df :
    node_of s p = NSel arms dn df -> In (ASend c k) arms -> arm_allowed prio s dn ->
    buf s c < cap c -> closed s c = false ->
    gstep prio s (mkst (upd (pcs s) p k) (ctrs s) (hist s) (closed s) (upd (buf s) c (S (buf s c))) (pending s) (cancelled s))
| s_bufrecv s p c kv kc arms dn df n :
    node_of s p = NSel arms dn df -> In (ARecv c kv kc) arms -> arm_allowed prio s dn ->
    buf s c = S n ->
    gstep prio s (mkst (upd (pcs s) p kv) (ctrs s) (hist s) (closed s) (upd (buf s) c n) (pending s) (cancelled s))
| s_recvclosed s p c kv kc arms dn df :
    node_of s p = NSel arms dn df -> In (ARecv c kv kc) arms -> arm_allowed prio s dn ->
    closed s c = true -> buf s c = 0 ->
    gstep prio s (move s p kc).

Definition step := gstep false.
Definition pstep := gstep true.

(* a state from which the Go runtime can panic: close of a closed channel, a WaitGroup Done by
   a goroutine that is not (or no longer) counted, a send on a closed channel *)
Inductive bad : st -> Prop :=
| b_close s p c k : node_of s p = NClose c k -> closed s c = true -> bad s
| b_wgdone s p w k : node_of s p = NWgDone w k -> ~ In p (pending s w) -> bad s
| b_send s p c k arms dn df :
    node_of s p = NSel arms dn df -> In (ASend c k) arms -> closed s c = true -> bad s.

Inductive reach (ctr0 : pid -> nat) : st -> Prop :=
| r_init : reach ctr0 (init ctr0)
| r_step s s' : reach ctr0 s -> step s s' -> reach ctr0 s'.

Definition exited (s : st) (p : pid) : Prop := node_of s p = NExit.
Definition final (s : st) : Prop := forall p, exited s p.
Definition stuck (s : st) : Prop := forall s', ~ pstep s s'.

(* ---------------------------------------------------------------- static conditions *)

Definition succs_of (nd : node) : list nat :=
  match nd with
  | NSel arms dn df =>
      flat_map (fun a => match a with ARecv _ kv kc => [kv; kc] | ASend _ k => [k] end) arms
      ++ match dn with Some d => [d] | None => [] end
      ++ match df with Some d => [d] | None => [] end
  | NTau succs => succs
  | NClose _ k | NWgDone _ k | NWgWait _ k | NCancel k => [k]
  | NLoop kb ke => [kb; ke]
  | NExit => []
  end.

(* the events performed on the edges out of a node *)
Definition events_of (nd : node) : list event :=
  match nd with
  | NClose c _ => [EClosed c]
  | NWgDone w _ => [EDone w]
  | NWgWait w _ => [EWaited w]
  | _ => []
  end.

(* successors along the steps that remain possible after cancellation under [pstep], with the
   requirement on the ranking: strictly smaller, except for the value branch of an unguarded
   receive (taken only from a buffer, which shrinks) and the entry of a data loop (which uses
   up the loop counter) *)
Definition rk_edges (nd : node) : list nat :=
  match nd with
  | NSel arms (Some d) _ => [d]
  | NSel arms None df =>
      flat_map (fun a => match a with ARecv _ kv kc => [kc] | ASend _ k => [k] end) arms
      ++ match df with Some d => [d] | None => [] end
  | NTau succs => succs
  | NClose _ k | NWgDone _ k | NWgWait _ k | NCancel k => [k]
  | NLoop kb ke => [ke]
  | NExit => []
  end.

Definition is_recv (a : arm) : Prop := match a with ARecv _ _ _ => True | ASend _ _ => False end.

Record wf : Prop := mkwf {
  wf_nprocs : forall c p, closer c = Some p -> p < length (procs N);
  wf_owed : forall c, owes c = true -> exists p, closer c = Some p;
  wf_members_lt : forall w m, In m (members w) -> m < length (procs N);
  wf_members_nodup : forall w, NoDup (members w);
  wf_code_nonempty : forall p, p < length (procs N) -> 0 < length (code (P p));
  wf_succ_range : forall p pc k, pc < length (code (P p)) -> In k (succs_of (node_at p pc)) ->
                                 k < length (code (P p));
  wf_tau_nonempty : forall p pc, node_at p pc <> NTau [];
  wf_rk_bound : forall p pc, rk_at p pc < rkbound N;
  wf_rk_edges : forall p pc k, In k (rk_edges (node_at p pc)) -> rk_at p k < rk_at p pc;
  wf_must0 : forall p, must_at p 0 = [];
  wf_must_edges : forall p pc k, In k (succs_of (node_at p pc)) ->
                                 incl (must_at p k) (events_of (node_at p pc) ++ must_at p pc);
  wf_may_edges : forall p pc k, In k (succs_of (node_at p pc)) ->
                                incl (events_of (node_at p pc) ++ may_at p pc) (may_at p k);
  (* a select without a ctx.Done arm is an await: receive arms only, each on a channel closed
     by a process of lower rank *)
  wf_await : forall p pc arms df, node_at p pc = NSel arms None df ->
               (df = None -> arms <> []) /\
               forall a, In a arms -> exists c kv kc q,
                   a = ARecv c kv kc /\ closer c = Some q /\ owes c = true /\ prank (P q) < prank (P p);
  wf_close : forall p pc c k, node_at p pc = NClose c k ->
               closer c = Some p /\ ~ In (EClosed c) (may_at p pc) /\
               (forall w, wg_for c = Some w -> In (EWaited w) (must_at p pc));
  wf_exit : forall p pc, pc < length (code (P p)) -> node_at p pc = NExit ->
               (forall c, closer c = Some p -> owes c = true -> In (EClosed c) (must_at p pc)) /\
               (forall w, In p (members w) -> In (EDone w) (must_at p pc));
  wf_wgdone : forall p pc w k, node_at p pc = NWgDone w k ->
               In p (members w) /\ ~ In (EDone w) (may_at p pc);
  wf_wgwait : forall p pc w k, node_at p pc = NWgWait w k ->
               forall m, In m (members w) -> prank (P m) < prank (P p);
  wf_send : forall p pc arms dn df c k, node_at p pc = NSel arms dn df -> In (ASend c k) arms ->
               closer c = None \/
               (closer c = Some p /\ ~ In (EClosed c) (may_at p pc)) \/
               (exists w, wg_for c = Some w /\ In p (members w) /\ ~ In (EDone w) (may_at p pc))
}.

End Semantics.
