(* GtCodec.v -- pointGT.UnmarshalBinary (/repo/group/bn256/point.go): at least 384 bytes; the twelve
   32-byte big-endian words are read in the order MarshalBinary writes them (x.x.x, x.x.y, x.y.x, ...,
   y.z.y) and brought into the field by montEncode (a Montgomery product: the value modulo p).  No
   further test is made (the source says so: "TODO: check if point is on curve"). *)
From Coq Require Import ZArith NArith List Bool.
From DosVerif Require Import Base.Val Base.Field Gen.BnConsts Models.Bn Models.BnPairing.
Import ListNotations.

Definition gt_word (buf : list N) (i : nat) : Fp := fp_of (be_val (firstn 32 (skipn (32 * i) buf))).

Definition fp12_unmarshal (buf : list N) : option fp12 :=
  if Nat.ltb (length buf) 384 then None
  else
    let c := gt_word buf in
    Some (mkfp12 (mkfp6 (mkfp2 (c 0%nat) (c 1%nat)) (mkfp2 (c 2%nat) (c 3%nat)) (mkfp2 (c 4%nat) (c 5%nat)))
                 (mkfp6 (mkfp2 (c 6%nat) (c 7%nat)) (mkfp2 (c 8%nat) (c 9%nat)) (mkfp2 (c 10%nat) (c 11%nat)))).

(* decode, then encode what was decoded (None: the decoder answers with an error) *)
Definition entry_gt (op : Z) (args : list val) : val :=
  match op, args with
  | 1%Z, [VB b] => match fp12_unmarshal b with Some e => VB (fp12_marshal e) | None => VErr end
  | _, _ => VErr
  end.
